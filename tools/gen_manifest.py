#!/usr/bin/env python3
"""Write MANIFEST.json from tools/checks_table.py (single source of truth for the checks)."""
import json
import os
import sys

ROOT = os.path.join(os.path.dirname(os.path.abspath(__file__)), "..")
sys.path.insert(0, os.path.dirname(os.path.abspath(__file__)))
import checks_table  # noqa: E402

props = [json.loads(l) for l in open(os.path.join(ROOT, "properties.jsonl"))]
hook_commits = ["10d9559"]
checks = []
for p in props:
    pid = p["id"]
    c = checks_table.CHECKS.get(pid)
    if not c:
        continue
    checks.append({
        "property_id": pid,
        "quick_cmd": f"./check {pid} --tier quick",
        "thorough_cmd": f"./check {pid} --tier thorough",
        "evidence_file": f"/verif/evidence/{pid}.json",
        "replay_cmd_template": f"./check {pid} --replay {{path}}",
        "engine": ",".join(e["engine"] for e in c["engines"]),
        "level_claimed": {"category": "proof", "text": c["level_text"], "design_ref": "DESIGN.md " + c.get("design_ref", "")},
        "level_note": c["level_note"],
        "technique": c["technique"],
    })
na = []
for p in props:
    if p["id"] not in checks_table.CHECKS:
        na.append({"property_id": p["id"], "reason": checks_table.NOT_YET.get(p["id"], "not claimed yet: model and engine under construction (see DESIGN.md section 8 order of work)")})
engines = {}
for pid, c in checks_table.CHECKS.items():
    for e in c["engines"]:
        engines.setdefault(e["engine"], set()).add(pid)
m = {
    "version": 1,
    "setup_cmd": "./tools/setup.sh",
    "hooks": {
        "guard": "--cfg wwcore_verif",
        "enable": "RUSTFLAGS='--cfg wwcore_verif' (set in /verif/harness/.cargo/config.toml); the harness crate path-depends on the contracts in /repo and patches white-whale-std to /repo/packages/white-whale-std",
        "baseline_off_cmd": "cd /repo && cargo nextest run --workspace --no-fail-fast --offline || cargo test --workspace --no-fail-fast --offline",
        "source_commits": hook_commits,
        "add_only": True,
    },
    "engines": [{"name": k, "path": f"harness/src/engines/{k}.rs", "serves_properties": sorted(v),
                 "kind_free_text": "Rust engine driving the real contracts / pure functions; output diffed against the Lean driver (lean/Driver)"} for k, v in sorted(engines.items())],
    "checks": checks,
    "notes": "One entry point: ./check <ID> --tier quick|thorough. Technique for every check: machine-checked proof in Lean 4 about a hand-written model + differential correspondence of the model's executable definitions against the real code + property monitors on the real code (search for a failing input). See DESIGN.md.",
    "not_applicable": na,
}
json.dump(m, open(os.path.join(ROOT, "MANIFEST.json"), "w"), indent=1)
print("MANIFEST.json:", len(checks), "checks,", len(na), "not claimed")
