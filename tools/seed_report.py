#!/usr/bin/env python3
"""tools/seed_report.py [seed ids…] : for every confirmed seeded change under /tmp/seed/<ID>-<X>/,
apply it to /repo, run the property's quick check, undo it, and store the change with what was run
under /verif/seeded/<ID>-<X>/ (patch.diff, demo.diff, RUN.md, meta.json). /repo must be clean and
nothing else may run checks meanwhile."""
import glob, json, os, re, shutil, subprocess, sys

ROOT = "/verif"
def sh(cmd, **kw):
    return subprocess.run(cmd, shell=True, text=True, stdout=subprocess.PIPE, stderr=subprocess.STDOUT, **kw)

seeds = sys.argv[1:] or sorted(os.path.basename(d) for d in glob.glob("/tmp/seed/C??-[AB]"))
rows = []
for sd in seeds:
    d = f"/tmp/seed/{sd}"
    pid = sd.split("-")[0]
    conf = open(f"{d}/confirm.log").read() if os.path.exists(f"{d}/confirm.log") else ""
    m = re.search(r"confirm: .*confirmed=(\w+)", conf)
    if not m or m.group(1) != "yes":
        rows.append((sd, "not-confirmed", ""))
        continue
    if sh("git -C /repo status --short").stdout.strip():
        print("/repo not clean"); sys.exit(3)
    if sh(f"git -C /repo apply {d}/patch.diff").returncode != 0:
        rows.append((sd, "patch-does-not-apply", "")); continue
    ev = f"{ROOT}/evidence/{pid}.json"
    ev_before = open(ev).read() if os.path.exists(ev) else None
    r = sh(f"cd {ROOT} && ./check {pid} --tier quick")
    sh("git -C /repo checkout -- .")
    # the evidence file of a run against a seeded change is not evidence for the unchanged tree: put the old one back
    if ev_before is not None:
        open(ev, "w").write(ev_before)
    lines = [l for l in r.stdout.splitlines() if l.startswith(("VIOLATION", "KNOWN-FINDING", "check "))]
    viol = [l for l in lines if l.startswith("VIOLATION")]
    with_input = [l for l in viol if "no-failing-input-found" not in l]
    monitors = []
    for l in with_input:
        mm = re.search(r"replay=(\S+)", l)
        if mm and os.path.exists(mm.group(1)):
            try:
                j = json.load(open(mm.group(1)))
                monitors.append(j.get("monitor") or j.get("kind"))
            except Exception:
                pass
    status = "caught-with-failing-input" if with_input else ("caught-no-failing-input-found" if viol else "MISSED")
    out = f"{ROOT}/seeded/{sd}"
    os.makedirs(out, exist_ok=True)
    for f in ("patch.diff", "demo.diff", "RUN.md"):
        if os.path.exists(f"{d}/{f}"):
            shutil.copy(f"{d}/{f}", out)
    meta = json.load(open(f"{d}/meta.json")) if os.path.exists(f"{d}/meta.json") else {}
    meta.update({
        "seed": sd, "property": pid,
        "confirmed_in_scratch_worktree": m.group(0),
        "what_was_run": [
            f"tools/confirm_seed.sh /tmp/seed/{sd} /tmp/seed/{pid}-repo  (demo passes on the clean tree, fails with patch.diff; unedited baseline 318 passed with patch.diff)",
            f"git -C /repo apply seeded/{sd}/patch.diff && ./check {pid} --tier quick ; git -C /repo checkout -- .",
        ],
        "check_result": status,
        "check_exit": r.returncode,
        "check_lines": [l[:300] for l in lines],
        "monitors_that_fired": sorted(set(x for x in monitors if x)),
    })
    json.dump(meta, open(f"{out}/meta.json", "w"), indent=1)
    rows.append((sd, status, ",".join(sorted(set(x for x in monitors if x)))[:120]))
    print(sd, status, flush=True)
sh(f"rm -f {ROOT}/replays/C*.json")
print()
for r in rows:
    print("| %s | %s | %s |" % r)
