#!/bin/sh
# tools/merge_agent.sh NAME : copy NEW files from /tmp/wa/NAME/verif into /verif; list files that differ
N=$1; S=/tmp/wa/$N/verif
cd $S && find . -type f \( -path ./.cache -o -path ./lean/.lake -o -path ./.git -o -path ./evidence -o -path './replays/*.json' \) -prune -o -type f -print | grep -v "^./.cache\|^./lean/.lake\|^./evidence/\|^./harness/Cargo\|^./lean/lake-manifest\|__pycache__\|^./replays/C" | while read f; do
  if [ ! -e "/verif/$f" ]; then mkdir -p "/verif/$(dirname $f)"; cp "$f" "/verif/$f"; echo "NEW  $f";
  elif ! cmp -s "$f" "/verif/$f"; then echo "DIFF $f"; fi
done
