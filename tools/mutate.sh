#!/bin/bash
# tools/mutate.sh <ID> <file relative to /repo> <python-regex-or-literal old> <new> : apply a literal one-spot edit to /repo,
# run ./check <ID>, undo. For hand mutations while building a check (never committed to /repo).
ID=$1; F=/repo/$2; OLD=$3; NEW=$4
git -C /repo status --short | grep -q . && { echo "/repo not clean"; exit 3; }
python3 - "$F" "$OLD" "$NEW" <<'PY' || { echo "mutation did not apply"; exit 2; }
import sys
f,old,new=sys.argv[1:4]
s=open(f).read()
if s.count(old)<1: sys.exit(1)
s=s.replace(old,new,1)
open(f,'w').write(s)
PY
cd /verif && ./check $ID --tier quick 2>&1 | grep -E "^VIOLATION|^KNOWN|^check " | cut -c1-260
for r in $(ls -t replays/$ID-monitor-*.json 2>/dev/null | head -3); do python3 -c "import json,sys; j=json.load(open('$r')); print('  ', j.get('monitor'), '|', (j.get('what') or '')[:200])"; done
git -C /repo checkout -- .
