#!/bin/bash
# tools/merge3.sh NAME BASE : three-way merge of a worker copy /tmp/wa/NAME/verif (made from commit BASE) into /verif.
# New files are copied, files only the worker changed are copied, files both changed go through git merge-file.
N=$1; BASE=$2; S=/tmp/wa/$N/verif
cd $S && find . -type f | grep -v "^./.cache\|^./lean/.lake\|^./evidence/\|^./harness/Cargo\|^./harness/target\|^./lean/lake-manifest\|__pycache__\|^./replays/C\|^./.git" | while read f; do
  f=${f#./}
  if [ ! -e "/verif/$f" ]; then mkdir -p "/verif/$(dirname $f)"; cp "$S/$f" "/verif/$f"; echo "NEW   $f"; continue; fi
  cmp -s "$S/$f" "/verif/$f" && continue
  if git -C /verif cat-file -e "$BASE:$f" 2>/dev/null; then
    git -C /verif show "$BASE:$f" > /tmp/merge3.base
    if cmp -s /tmp/merge3.base "$S/$f"; then continue; fi            # worker did not touch it
    if cmp -s /tmp/merge3.base "/verif/$f"; then cp "$S/$f" "/verif/$f"; echo "COPY  $f"; continue; fi
    cp "/verif/$f" /tmp/merge3.ours
    if git merge-file -q /tmp/merge3.ours /tmp/merge3.base "$S/$f"; then cp /tmp/merge3.ours "/verif/$f"; echo "MERGE $f";
    else cp /tmp/merge3.ours "/verif/$f.conflict"; echo "CONFLICT $f (see $f.conflict)"; fi
  else
    echo "BOTH-NEW-DIFFER $f"
  fi
done
