#!/usr/bin/env python3
"""tools/source_fingerprint.py [--record]

SHA-256 of every non-test Rust source file of the hub (contracts/liquidity_hub/**/src, packages/white-whale-std/src)
as it is in the working tree of /repo NOW, compared with the table recorded when the checks were last validated
against /repo's HEAD (tools/source_fingerprints.json, committed; `--record` rewrites it).

This is NOT a tie between model and code and NOT an alarm: a differing file proves nothing. `check` uses the list of
differing files for one thing only - to decide how much search effort to spend: when source text that a property's
engines execute differs from the recorded text and the ordinary quick sample found nothing, the engines are run again
with more cases and fresh seeds (DESIGN 9.8). On the recorded tree the list is empty and nothing changes.
"""
import hashlib
import json
import os
import re
import sys

REPO = os.environ.get("VERIF_REPO", "/repo")
HERE = os.path.dirname(os.path.abspath(__file__))
TABLE = os.path.join(HERE, "source_fingerprints.json")
ROOTS = ["contracts/liquidity_hub", "packages/white-whale-std/src"]
SKIP = re.compile(r"(^|/)(tests?|testing|examples|bin|target|schema)(/|\.rs$)|(^|/)(mock_querier|schema)\.rs$")


def current():
    out = {}
    for root in ROOTS:
        base = os.path.join(REPO, root)
        for d, dirs, files in os.walk(base):
            dirs[:] = [x for x in dirs if x not in ("target", ".git")]
            for f in files:
                if not f.endswith(".rs"):
                    continue
                rel = os.path.relpath(os.path.join(d, f), REPO)
                if "/src/" not in rel and not rel.startswith("packages/"):
                    continue
                if SKIP.search(rel):
                    continue
                with open(os.path.join(d, f), "rb") as fh:
                    out[rel] = hashlib.sha256(fh.read()).hexdigest()[:20]
    return out


def crate_dir(rel):
    m = re.match(r"(contracts/liquidity_hub/.*?)/src/", rel)
    return m.group(1) if m else "packages/white-whale-std"


def changed():
    """files whose text differs from the recorded table (edited, added or removed), sorted"""
    try:
        rec = json.load(open(TABLE))["files"]
    except (OSError, ValueError, KeyError):
        return None
    cur = current()
    return sorted(f for f in set(rec) | set(cur) if rec.get(f) != cur.get(f))


def main():
    if "--record" in sys.argv:
        cur = current()
        json.dump({"note": "recorded by tools/source_fingerprint.py --record against /repo's HEAD; search-effort hint only (DESIGN 9.8)",
                   "files": dict(sorted(cur.items()))}, open(TABLE, "w"), indent=0)
        print(f"recorded {len(cur)} files")
        return 0
    ch = changed()
    if ch is None:
        print("no table recorded")
        return 0
    print(json.dumps(ch))
    return 0


if __name__ == "__main__":
    sys.exit(main())
