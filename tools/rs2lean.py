#!/usr/bin/env python3
"""Regenerate lean/WW/Gen/Kernels.lean from the Rust sources of the PURE NUMERIC KERNELS (every check run).

A small typed translator for a restricted subset of Rust (tokenizer, recursive-descent parser, local type
inference, emission into the `WW.Res` monad over the primitives of `lean/WW/Cw/Arith.lean`).  The theorems
`gen_<name>_eq_model` of `lean/WW/Props/Kernels/*.lean` state that every regenerated definition EQUALS the
hand-written model function for all inputs, so an edit to the Rust of a kernel changes the generated
definition and breaks a proof obligation.

Trusted part: the table `SEM` below (Rust operation x operand types -> Lean primitive) and the handful of
structural rules of `class Tr` (evaluation order = source order, `?` = bind, `return Err` = `Res.err`,
`&&`/`||` short-circuit, `Option<T>` as a function result is `Res T` with `None` = `err`).

Anything that is not understood makes the translation of that kernel FAIL LOUDLY:
    UNTRANSLATABLE <fn> <file>:<line> <reason>
and the script exits 3 (the kernel and the kernels that call it are then absent from the generated file, so
their equivalence theorems no longer build).  Nothing is guessed and no statement is skipped silently.

usage: rs2lean.py [--list]      (--list prints the kernel table as JSON and does not write)
"""
import hashlib
import json
import os
import re
import sys

REPO = os.environ.get("VERIF_REPO", "/repo")
HERE = os.path.dirname(os.path.abspath(__file__))
OUT = os.path.join(HERE, "..", "lean", "WW", "Gen", "Kernels.lean")
OUT_JSON = os.path.join(HERE, "..", "lean", "WW", "Gen", "Kernels.json")

PN = "contracts/liquidity_hub/pool-network/"
STD = "packages/white-whale-std/src/"


class U(Exception):
    """untranslatable: (line, reason)"""

    def __init__(self, line, reason):
        Exception.__init__(self, reason)
        self.line, self.reason = line, reason


# ======================================================================================= tokenizer
class Tok:
    __slots__ = ("k", "s", "line", "suffix")

    def __init__(self, k, s, line, suffix=None):
        self.k, self.s, self.line, self.suffix = k, s, line, suffix

    def __repr__(self):
        return f"{self.k}:{self.s}@{self.line}"


PUNCT = ["..=", "...", "::", "->", "=>", "==", "!=", "<=", ">=", "&&", "||", "+=", "-=", "*=", "/=", "%=", "^=",
         "&=", "|=", ".."] + list("+-*/%^!&|=<>@.,;:#$?~()[]{}")
INT_SUFFIXES = ("u8", "u16", "u32", "u64", "u128", "usize", "i8", "i16", "i32", "i64", "i128", "isize")


def tokenize(src):
    toks, i, n, line = [], 0, len(src), 1
    while i < n:
        c = src[i]
        if c == "\n":
            line += 1
            i += 1
        elif c in " \t\r":
            i += 1
        elif src.startswith("//", i):
            while i < n and src[i] != "\n":
                i += 1
        elif src.startswith("/*", i):
            depth = 0
            while i < n:
                if src.startswith("/*", i):
                    depth += 1
                    i += 2
                elif src.startswith("*/", i):
                    depth -= 1
                    i += 2
                    if depth == 0:
                        break
                else:
                    if src[i] == "\n":
                        line += 1
                    i += 1
        elif c.isalpha() or c == "_":
            j = i
            while j < n and (src[j].isalnum() or src[j] == "_"):
                j += 1
            # raw / byte strings are not supported
            if src[i:j] in ("r", "b", "br") and j < n and src[j] in "\"#'":
                raise U(line, "raw/byte string literal")
            toks.append(Tok("id", src[i:j], line))
            i = j
        elif c.isdigit():
            j = i
            if src.startswith(("0x", "0o", "0b"), i):
                raise U(line, "non-decimal integer literal")
            while j < n and (src[j].isdigit() or src[j] == "_"):
                j += 1
            if j < n and src[j] == "." and j + 1 < n and src[j + 1].isdigit():
                raise U(line, "float literal")
            digits = src[i:j].replace("_", "")
            suffix = None
            k = j
            while k < n and (src[k].isalnum() or src[k] == "_"):
                k += 1
            if k > j:
                suffix = src[j:k]
                if suffix not in INT_SUFFIXES:
                    raise U(line, f"literal suffix {suffix}")
            toks.append(Tok("int", digits, line, suffix))
            i = k
        elif c == '"':
            j = i + 1
            buf = []
            while j < n and src[j] != '"':
                if src[j] == "\\":
                    buf.append(src[j:j + 2])
                    j += 2
                else:
                    if src[j] == "\n":
                        line += 1
                    buf.append(src[j])
                    j += 1
            toks.append(Tok("str", "".join(buf), line))
            i = j + 1
        elif c == "'":
            # char literal or lifetime
            m = re.match(r"'(\\.|[^\\'])'", src[i:])
            if m:
                toks.append(Tok("char", m.group(1), line))
                i += m.end()
            else:
                j = i + 1
                while j < n and (src[j].isalnum() or src[j] == "_"):
                    j += 1
                toks.append(Tok("life", src[i:j], line))
                i = j
        else:
            for p in PUNCT:
                if src.startswith(p, i):
                    toks.append(Tok("p", p, line))
                    i += len(p)
                    break
            else:
                raise U(line, f"unexpected character {c!r}")
    toks.append(Tok("eof", "", line))
    return toks


# ======================================================================================= cfg attributes
DISABLED_FEATURES = {"osmosis"}  # default cargo features: the `osmosis` items are absent


def attr_text(toks):
    return "".join(t.s if t.k != "str" else '"' + t.s + '"' for t in toks)


def cfg_keep(attrs, line):
    """attrs: list of token lists (the inside of #[...]).  True = item present under default features."""
    keep = True
    for a in attrs:
        txt = attr_text(a)
        if not txt.startswith("cfg"):
            if txt.startswith("cfg_attr"):
                raise U(line, "cfg_attr attribute")
            continue
        m = re.fullmatch(r'cfg\(feature="([A-Za-z0-9_\-]+)"\)', txt)
        if m and m.group(1) in DISABLED_FEATURES:
            keep = False
            continue
        m = re.fullmatch(r'cfg\(not\(feature="([A-Za-z0-9_\-]+)"\)\)', txt)
        if m and m.group(1) in DISABLED_FEATURES:
            continue
        if txt == "cfg(test)":
            keep = False
            continue
        raise U(line, f"cfg attribute not understood: #[{txt}]")
    return keep


# ======================================================================================= parser
def N(k, line, **kw):
    kw["k"] = k
    kw["line"] = line
    return kw


BINPREC = {"||": 1, "&&": 2, "==": 3, "!=": 3, "<": 3, ">": 3, "<=": 3, ">=": 3, "|": 4, "^": 5, "&": 6,
           "+": 8, "-": 8, "*": 9, "/": 9, "%": 9}
BLOCKLIKE = ("if", "iflet", "match", "block", "for", "while", "loop")


class Parser:
    def __init__(self, toks, pos=0):
        self.t, self.p = toks, pos

    # -------- helpers
    def peek(self, o=0):
        return self.t[self.p + o]

    def at(self, s, o=0):
        t = self.t[self.p + o]
        return t.k in ("p", "id") and t.s == s

    def eat(self, s):
        if self.at(s):
            self.p += 1
            return True
        return False

    def expect(self, s):
        if not self.eat(s):
            t = self.peek()
            raise U(t.line, f"expected `{s}`, found `{t.s}`")

    def ident(self):
        t = self.peek()
        if t.k != "id":
            raise U(t.line, f"expected identifier, found `{t.s}`")
        self.p += 1
        return t.s

    def attrs(self):
        out = []
        while self.at("#"):
            ln = self.peek().line
            self.p += 1
            if self.at("!"):
                raise U(ln, "inner attribute")
            self.expect("[")
            depth, start = 1, self.p
            while depth:
                t = self.peek()
                if t.k == "eof":
                    raise U(ln, "unterminated attribute")
                if t.k == "p" and t.s == "[":
                    depth += 1
                elif t.k == "p" and t.s == "]":
                    depth -= 1
                self.p += 1
            out.append(self.t[start:self.p - 1])
        return out

    # -------- types
    def ty(self):
        t = self.peek()
        ln = t.line
        if self.eat("&"):
            if self.peek().k == "life":
                self.p += 1
            if self.eat("mut"):
                raise U(ln, "&mut type")
            return N("tref", ln, inner=self.ty())
        if self.at("&&"):
            raise U(ln, "&& type")
        if self.eat("("):
            if self.eat(")"):
                return N("tunit", ln)
            raise U(ln, "tuple type")
        if self.eat("["):
            inner = self.ty()
            if self.eat(";"):
                n = self.peek()
                if n.k != "int":
                    raise U(ln, "array length is not a literal")
                self.p += 1
                self.expect("]")
                return N("tarray", ln, inner=inner, n=int(n.s))
            self.expect("]")
            return N("tslice", ln, inner=inner)
        if t.k == "id" and t.s in ("dyn", "impl", "fn"):
            raise U(ln, f"`{t.s}` type")
        segs = [self.ident()]
        while self.at("::") and self.peek(1).k == "id":
            self.p += 1
            segs.append(self.ident())
        args = []
        if self.eat("<"):
            while not self.at(">"):
                if self.peek().k == "life":
                    self.p += 1
                else:
                    args.append(self.ty())
                if not self.eat(","):
                    break
            self.expect(">")
        return N("tpath", ln, segs=segs, args=args)

    # -------- patterns
    def pattern(self):
        t = self.peek()
        ln = t.line
        if self.eat("&"):
            return self.pattern()
        if self.eat("_"):
            return N("pwild", ln)
        if self.eat("mut"):
            return N("pbind", ln, name=self.ident(), mut=True)
        if t.k == "int":
            self.p += 1
            return N("plit", ln, v=int(t.s), suffix=t.suffix)
        if t.k != "id":
            raise U(ln, f"pattern starting with `{t.s}`")
        segs = [self.ident()]
        while self.eat("::"):
            segs.append(self.ident())
        if self.eat("("):
            subs = []
            while not self.at(")"):
                subs.append(self.pattern())
                if not self.eat(","):
                    break
            self.expect(")")
            return N("ptuple", ln, segs=segs, subs=subs)
        if self.at("{"):
            self.p += 1
            fields, rest = [], False
            while not self.at("}"):
                if self.eat(".."):
                    rest = True
                    break
                fname = self.ident()
                if self.eat(":"):
                    fields.append((fname, self.pattern()))
                else:
                    fields.append((fname, N("pbind", ln, name=fname, mut=False)))
                if not self.eat(","):
                    break
            self.expect("}")
            return N("pstruct", ln, segs=segs, fields=fields, rest=rest)
        if len(segs) == 1 and segs[0][0].islower():
            return N("pbind", ln, name=segs[0], mut=False)
        return N("ppath", ln, segs=segs)

    # -------- blocks and statements
    def block(self):
        """`{ stmts }` -> N('block', stmts=[...], tail=expr|None)"""
        ln = self.peek().line
        self.expect("{")
        entries = []  # (node, has_semi)
        while not self.at("}"):
            if self.peek().k == "eof":
                raise U(ln, "unterminated block")
            at = self.attrs()
            sl = self.peek().line
            keep = cfg_keep(at, sl)
            if self.eat(";"):
                continue
            if self.at("let"):
                node, semi = self.let_stmt(), True
            elif self.peek().k == "id" and self.peek().s in ("fn", "const", "static", "use", "struct", "enum", "impl",
                                                              "mod", "type", "trait", "macro_rules"):
                raise U(sl, f"nested item `{self.peek().s}` inside a function body")
            else:
                e = self.expr(0, False)
                if self.eat(";"):
                    node, semi = N("sexpr", sl, e=e), True
                elif self.at("}") or e["k"] in BLOCKLIKE:
                    node, semi = N("sexpr", sl, e=e), False
                else:
                    raise U(self.peek().line, f"expected `;` or `}}`, found `{self.peek().s}`")
            if keep:
                entries.append((node, semi))
        self.expect("}")
        tail = None
        if entries and not entries[-1][1]:
            tail = entries[-1][0]["e"]
            entries = entries[:-1]
        return N("block", ln, stmts=[e for e, _ in entries], tail=tail)

    def let_stmt(self):
        ln = self.peek().line
        self.expect("let")
        pat = self.pattern()
        ty = None
        if self.eat(":"):
            ty = self.ty()
        init = None
        if self.eat("="):
            init = self.expr(0, False)
        if self.at("else"):
            raise U(ln, "let-else")
        self.expect(";")
        return N("let", ln, pat=pat, ty=ty, init=init)

    # -------- expressions
    def expr(self, minp, nostruct):
        ln = self.peek().line
        if self.at("return"):
            self.p += 1
            e = None
            if not (self.at(";") or self.at("}") or self.at(",") or self.at(")")):
                e = self.expr(0, nostruct)
            return N("return", ln, e=e)
        if self.at("break"):
            self.p += 1
            if self.peek().k == "life":
                raise U(ln, "labelled break")
            if not (self.at(";") or self.at("}") or self.at(",")):
                raise U(ln, "break with a value")
            return N("break", ln)
        if self.at("continue"):
            raise U(ln, "continue")
        if self.at("|") or self.at("||") or self.at("move"):
            return self.closure()
        lhs = self.unary(nostruct)
        while True:
            t = self.peek()
            if t.k == "id" and t.s == "as":
                # `as` binds tighter than any binary operator
                self.p += 1
                lhs = N("cast", t.line, e=lhs, ty=self.ty())
                continue
            if t.k != "p":
                break
            op = t.s
            if op in ("=", "+=", "-=", "*=", "/=", "%=") and minp == 0:
                self.p += 1
                rhs = self.expr(0, nostruct)
                return N("assign", t.line, op=op, lhs=lhs, rhs=rhs)
            if op in ("..", "..=") and minp == 0:
                self.p += 1
                hi = None
                if not (self.at(")") or self.at("{") or self.at("]") or self.at(";") or self.at(",")):
                    hi = self.expr(1, nostruct)
                lhs = N("range", t.line, lo=lhs, hi=hi, incl=(op == "..="))
                continue
            if op not in BINPREC:
                break
            pr = BINPREC[op]
            if pr < max(minp, 1):
                break
            self.p += 1
            rhs = self.expr(pr + 1, nostruct)
            if pr == 3 and self.peek().k == "p" and self.peek().s in ("==", "!=", "<", ">", "<=", ">="):
                raise U(t.line, "chained comparison")
            lhs = N("bin", t.line, op=op, l=lhs, r=rhs)
        return lhs

    def closure(self):
        ln = self.peek().line
        self.eat("move")
        params = []
        if self.eat("||"):
            pass
        else:
            self.expect("|")
            while not self.at("|"):
                params.append(self.pattern())
                if self.eat(":"):
                    self.ty()
                if not self.eat(","):
                    break
            self.expect("|")
        if self.eat("->"):
            self.ty()
        body = self.expr(0, False)
        return N("closure", ln, params=params, body=body)

    def unary(self, nostruct):
        t = self.peek()
        ln = t.line
        if self.eat("!"):
            return N("un", ln, op="!", e=self.unary(nostruct))
        if self.eat("-"):
            return N("un", ln, op="-", e=self.unary(nostruct))
        if self.eat("*"):
            return N("un", ln, op="*", e=self.unary(nostruct))
        if self.at("&") or self.at("&&"):
            cnt = 2 if self.at("&&") else 1
            self.p += 1
            if self.eat("mut"):
                raise U(ln, "&mut borrow")
            e = self.unary(nostruct)
            for _ in range(cnt):
                e = N("un", ln, op="&", e=e)
            return e
        return self.postfix(self.primary(nostruct), nostruct)

    def args(self):
        out = []
        self.expect("(")
        while not self.at(")"):
            out.append(self.expr(0, False))
            if not self.eat(","):
                break
        self.expect(")")
        return out

    def postfix(self, e, nostruct):
        while True:
            t = self.peek()
            if self.at("?"):
                self.p += 1
                e = N("try", t.line, e=e)
            elif self.at("."):
                nx = self.peek(1)
                if nx.k == "int":
                    raise U(t.line, "tuple field access")
                if nx.k != "id":
                    break
                self.p += 2
                name = nx.s
                if name == "await":
                    raise U(t.line, ".await")
                turbofish = None
                if self.at("::"):
                    self.p += 1
                    self.expect("<")
                    turbofish = []
                    while not self.at(">"):
                        turbofish.append(self.ty())
                        if not self.eat(","):
                            break
                    self.expect(">")
                if self.at("("):
                    e = N("mcall", nx.line, recv=e, name=name, args=self.args(), turbofish=turbofish)
                else:
                    e = N("field", nx.line, recv=e, name=name)
            elif self.at("("):
                e = N("call", t.line, f=e, args=self.args())
            elif self.at("["):
                self.p += 1
                idx = self.expr(0, False)
                self.expect("]")
                e = N("index", t.line, recv=e, idx=idx)
            else:
                break
        return e

    def primary(self, nostruct):
        t = self.peek()
        ln = t.line
        if t.k == "int":
            self.p += 1
            return N("int", ln, v=int(t.s), suffix=t.suffix)
        if t.k == "str":
            self.p += 1
            return N("str", ln, v=t.s)
        if t.k in ("char", "life"):
            raise U(ln, "char literal / lifetime in expression")
        if self.eat("("):
            if self.eat(")"):
                return N("unit", ln)
            e = self.expr(0, False)
            if self.at(","):
                raise U(ln, "tuple expression")
            self.expect(")")
            return N("paren", ln, e=e)
        if self.eat("["):
            elems = []
            while not self.at("]"):
                elems.append(self.expr(0, False))
                if self.at(";"):
                    raise U(ln, "array repeat expression")
                if not self.eat(","):
                    break
            self.expect("]")
            return N("array", ln, elems=elems)
        if self.at("{"):
            return self.block()
        if self.at("unsafe") or self.at("async") or self.at("loop") or self.at("while"):
            raise U(ln, f"`{t.s}` expression")
        if self.at("if"):
            return self.if_expr()
        if self.at("match"):
            return self.match_expr()
        if self.at("for"):
            self.p += 1
            pat = self.pattern()
            self.expect("in")
            it = self.expr(0, True)
            body = self.block()
            return N("for", ln, pat=pat, it=it, body=body)
        if t.k == "id":
            if t.s in ("true", "false"):
                self.p += 1
                return N("bool", ln, v=(t.s == "true"))
            segs = [self.ident()]
            generic = None
            while self.at("::"):
                if self.peek(1).k == "id":
                    self.p += 1
                    segs.append(self.ident())
                elif self.peek(1).k == "p" and self.peek(1).s == "<":
                    self.p += 2
                    generic = []
                    while not self.at(">"):
                        generic.append(self.ty())
                        if not self.eat(","):
                            break
                    self.expect(">")
                else:
                    break
            if self.at("!") and not self.at("!=") and self.peek(1).k == "p" and self.peek(1).s in "([{":
                if segs == ["format"] and self.peek(1).s == "(":
                    # `format!(..)`: a String built for a message; kept as an opaque node that is accepted ONLY as
                    # an argument of an error constructor (`Tr.error_value`); anywhere else `tr` refuses the kind
                    self.p += 1
                    depth = 0
                    while True:
                        t = self.peek()
                        if t.k == "eof":
                            raise U(ln, "unterminated macro invocation")
                        if t.k == "p" and t.s == "(":
                            depth += 1
                        elif t.k == "p" and t.s == ")":
                            depth -= 1
                            if depth == 0:
                                self.p += 1
                                break
                        self.p += 1
                    return N("macro", ln, name="format")
                raise U(ln, f"macro invocation `{'::'.join(segs)}!`")
            if self.at("{") and not nostruct and (segs[-1][0].isupper()):
                return self.struct_lit(segs, ln)
            return N("path", ln, segs=segs, generic=generic)
        raise U(ln, f"unexpected token `{t.s}`")

    def struct_lit(self, segs, ln):
        self.expect("{")
        fields = []
        while not self.at("}"):
            if self.at(".."):
                raise U(ln, "struct update syntax `..base`")
            at = self.attrs()
            fl = self.peek().line
            keep = cfg_keep(at, fl)
            fname = self.ident()
            if self.eat(":"):
                fe = self.expr(0, False)
            else:
                fe = N("path", fl, segs=[fname], generic=None)
            if keep:
                fields.append((fname, fe))
            if not self.eat(","):
                break
        self.expect("}")
        return N("structlit", ln, segs=segs, fields=fields)

    def if_expr(self):
        ln = self.peek().line
        self.expect("if")
        if self.eat("let"):
            pat = self.pattern()
            self.expect("=")
            scrut = self.expr(0, True)
            if self.at("&&"):
                raise U(ln, "if-let chain")
            then = self.block()
            els = self.else_part()
            return N("iflet", ln, pat=pat, e=scrut, then=then, els=els)
        cond = self.expr(0, True)
        then = self.block()
        els = self.else_part()
        return N("if", ln, cond=cond, then=then, els=els)

    def else_part(self):
        if self.eat("else"):
            if self.at("if"):
                e = self.if_expr()
                return N("block", e["line"], stmts=[], tail=e)
            return self.block()
        return None

    def match_expr(self):
        ln = self.peek().line
        self.expect("match")
        scrut = self.expr(0, True)
        self.expect("{")
        arms = []
        while not self.at("}"):
            at = self.attrs()
            al = self.peek().line
            keep = cfg_keep(at, al)
            self.eat("|")
            pats = [self.pattern()]
            while self.eat("|"):
                pats.append(self.pattern())
            if self.at("if"):
                raise U(al, "match guard")
            self.expect("=>")
            body = self.expr(0, False)
            if not self.eat(","):
                if not (body["k"] in BLOCKLIKE or self.at("}")):
                    raise U(self.peek().line, "expected `,` after match arm")
            if keep:
                arms.append((pats, body, al))
        self.expect("}")
        return N("match", ln, e=scrut, arms=arms)


# ======================================================================================= item scanner
class SourceFile:
    """items of one Rust file: fns (free and in inherent impls), structs, enums, consts"""

    def __init__(self, rel):
        self.rel = rel
        path = os.path.join(REPO, rel)
        try:
            self.src = open(path).read()
        except OSError:
            raise U(0, "file not found")
        self.lines = self.src.split("\n")
        self.toks = tokenize(self.src)
        self.fns = {}      # (impl_type|None, name) -> dict(start_tok, line0, line1, attrs)
        self.structs = {}  # name -> dict(fields=[(name, type_ast)], line0, line1)
        self.enums = {}    # name -> dict(variants=[(name, [(fname, type_ast)] | None)], line0, line1)
        self.consts = {}   # name -> dict(ty=type_ast, init_tok=pos, line)
        self.scan(0, len(self.toks) - 1, None)

    def skip_balanced(self, p):
        """p at an opening bracket; returns position after the matching close"""
        op = self.toks[p].s
        cl = {"(": ")", "[": "]", "{": "}"}[op]
        depth = 0
        while True:
            t = self.toks[p]
            if t.k == "eof":
                raise U(t.line, "unbalanced brackets")
            if t.k == "p" and t.s == op:
                depth += 1
            elif t.k == "p" and t.s == cl:
                depth -= 1
                if depth == 0:
                    return p + 1
            p += 1

    def scan(self, p, end, impl):
        T = self.toks
        while p < end:
            ps = Parser(T, p)
            at = ps.attrs()
            p = ps.p
            if p >= end:
                break
            first_line = T[p].line
            # visibility
            if T[p].k == "id" and T[p].s == "pub":
                p += 1
                if T[p].k == "p" and T[p].s == "(":
                    p = self.skip_balanced(p)
            while T[p].k == "id" and T[p].s in ("const", "async", "unsafe", "extern", "default") and \
                    T[p + 1].k == "id" and T[p + 1].s in ("fn", "unsafe", "extern", "async"):
                p += 1
            t = T[p]
            if t.k == "id" and t.s == "fn":
                name = T[p + 1].s
                q = p + 2
                # find the body: first `{` at bracket depth 0 (or `;` for a declaration)
                while not (T[q].k == "p" and T[q].s in ("{", ";")):
                    if T[q].k == "p" and T[q].s in ("(", "["):
                        q = self.skip_balanced(q)
                    elif T[q].k == "eof":
                        raise U(t.line, "fn without body")
                    else:
                        q += 1
                if T[q].s == ";":
                    p = q + 1
                    continue
                e = self.skip_balanced(q)
                self.fns.setdefault((impl, name), []).append(
                    dict(start=p, line0=first_line, line1=T[e - 1].line, attrs=at, impl=impl))
                p = e
            elif t.k == "id" and t.s == "impl":
                q = p + 1
                hdr = []
                while not (T[q].k == "p" and T[q].s == "{"):
                    if T[q].k == "eof":
                        raise U(t.line, "impl without body")
                    hdr.append(T[q])
                    q += 1
                e = self.skip_balanced(q)
                names = [h.s for h in hdr]
                if len(hdr) == 3 and hdr[1].s == "for" and all(h.k == "id" for h in hdr):
                    # `impl Trait for Type { .. }`: its fns are listed under the impl name "Trait for Type"
                    keep = True
                    try:
                        keep = cfg_keep(at, t.line)
                    except U:
                        keep = False
                    if keep:
                        self.scan(q + 1, e - 1, f"{hdr[0].s} for {hdr[2].s}")
                elif "for" in names or "<" in names:
                    pass  # other trait impls and generic impls hold no kernels
                else:
                    keep = True
                    try:
                        keep = cfg_keep(at, t.line)
                    except U:
                        keep = False
                    if keep and len(hdr) == 1:
                        self.scan(q + 1, e - 1, hdr[0].s)
                p = e
            elif t.k == "id" and t.s == "struct":
                name = T[p + 1].s
                q = p + 2
                if T[q].k == "p" and T[q].s == "{":
                    e = self.skip_balanced(q)
                    self.structs.setdefault(name, []).append(dict(body=q, line0=first_line, line1=T[e - 1].line, attrs=at))
                    p = e
                else:
                    while not (T[q].k == "p" and T[q].s in (";", "{")):
                        q = self.skip_balanced(q) if (T[q].k == "p" and T[q].s in "([") else q + 1
                    p = self.skip_balanced(q) if T[q].s == "{" else q + 1
            elif t.k == "id" and t.s == "enum":
                name = T[p + 1].s
                q = p + 2
                while not (T[q].k == "p" and T[q].s == "{"):
                    q += 1
                e = self.skip_balanced(q)
                self.enums.setdefault(name, []).append(dict(body=q, line0=first_line, line1=T[e - 1].line, attrs=at))
                p = e
            elif t.k == "id" and t.s == "const" and T[p + 1].k == "id" and T[p + 2].k == "p" and T[p + 2].s == ":":
                name = T[p + 1].s
                q = p + 3
                self.consts.setdefault(name, []).append(dict(ty=q, line=t.line, attrs=at, impl=impl))
                while not (T[q].k == "p" and T[q].s == ";"):
                    q = self.skip_balanced(q) if (T[q].k == "p" and T[q].s in "([{") else q + 1
                p = q + 1
            else:
                # any other item (use, mod, trait, type, static, macro): skip to `;` or over one `{...}`
                q = p
                while True:
                    if T[q].k == "eof" or q >= end:
                        p = end
                        break
                    if T[q].k == "p" and T[q].s == ";":
                        p = q + 1
                        break
                    if T[q].k == "p" and T[q].s == "{":
                        p = self.skip_balanced(q)
                        break
                    if T[q].k == "p" and T[q].s in "([":
                        q = self.skip_balanced(q)
                    else:
                        q += 1

    def unique(self, table, key, what):
        got = [x for x in table.get(key, []) if self._present(x)]
        if not got:
            raise U(0, f"{what} `{key if isinstance(key, str) else '::'.join(k for k in key if k)}` not found")
        if len(got) > 1:
            raise U(got[1]["line0"] if "line0" in got[1] else got[1]["line"], f"{what} defined more than once")
        return got[0]

    def _present(self, item):
        ln = item.get("line0", item.get("line", 0))
        return cfg_keep(item["attrs"], ln)

    def text(self, line0, line1):
        return "\n".join(self.lines[line0 - 1:line1]) + "\n"

    def struct_fields(self, name):
        it = self.unique(self.structs, name, "struct")
        ps = Parser(self.toks, it["body"])
        ps.expect("{")
        fields = []
        while not ps.at("}"):
            at = ps.attrs()
            ln = ps.peek().line
            keep = cfg_keep(at, ln)
            if ps.eat("pub"):
                if ps.at("("):
                    ps.p = self.skip_balanced(ps.p)
            fname = ps.ident()
            ps.expect(":")
            fty = ps.ty()
            if keep:
                fields.append((fname, fty))
            if not ps.eat(","):
                break
        ps.expect("}")
        return fields, it

    def enum_variants(self, name):
        it = self.unique(self.enums, name, "enum")
        ps = Parser(self.toks, it["body"])
        ps.expect("{")
        variants = []
        while not ps.at("}"):
            at = ps.attrs()
            ln = ps.peek().line
            keep = cfg_keep(at, ln)
            vname = ps.ident()
            fields = None
            if ps.at("{"):
                ps.p += 1
                fields = []
                while not ps.at("}"):
                    fat = ps.attrs()
                    fkeep = cfg_keep(fat, ps.peek().line)
                    fname = ps.ident()
                    ps.expect(":")
                    fty = ps.ty()
                    if fkeep:
                        fields.append((fname, fty))
                    if not ps.eat(","):
                        break
                ps.expect("}")
            elif ps.at("("):
                raise U(ln, "tuple enum variant")
            if ps.at("="):
                raise U(ln, "enum discriminant")
            if keep:
                variants.append((vname, fields))
            if not ps.eat(","):
                break
        ps.expect("}")
        return variants, it

    def parse_fn(self, impl, name):
        it = self.unique(self.fns, (impl, name), "fn")
        ps = Parser(self.toks, it["start"])
        ps.expect("fn")
        ps.ident()
        if ps.at("<"):
            raise U(it["line0"], "generic function")
        ps.expect("(")
        params = []
        into_params = set()
        while not ps.at(")"):
            ln = ps.peek().line
            ps.attrs()
            if ps.at("&") and ps.at("self", 1):
                ps.p += 2
                params.append(("self", N("tpath", ln, segs=["Self"], args=[])))
            elif ps.at("self"):
                ps.p += 1
                params.append(("self", N("tpath", ln, segs=["Self"], args=[])))
            elif ps.at("&") and ps.at("mut", 1):
                raise U(ln, "&mut self")
            else:
                if ps.eat("mut"):
                    raise U(ln, "mutable parameter")
                pname = ps.ident()
                ps.expect(":")
                if ps.at("impl"):
                    # `x: impl Into<T>`: the callee converts with the lossless `.into()`; the parameter has
                    # type T and every call site converts its argument by a `conv into` row of SEM
                    ps.p += 1
                    if not (ps.eat("Into") and ps.eat("<")):
                        raise U(ln, "`impl Trait` parameter other than `impl Into<T>`")
                    pty = ps.ty()
                    ps.expect(">")
                    params.append((pname, pty))
                    into_params.add(pname)
                else:
                    params.append((pname, ps.ty()))
            if not ps.eat(","):
                break
        ps.expect(")")
        ret = None
        if ps.eat("->"):
            ret = ps.ty()
        if ps.at("where"):
            raise U(it["line0"], "where clause")
        body = ps.block()
        return dict(params=params, ret=ret, body=body, item=it, into_params=into_params)


# ---- addition: file-level lint attributes.  `#![allow(..)]` / `#![warn(..)]` / `#![deny(..)]` / `#![forbid(..)]`
# at the top of a file only set lint levels (Rust reference, "Lint check attributes": no effect on the meaning of
# the items); they are skipped.  Any other inner attribute (`#![cfg(..)]`, `#![feature(..)]`, …) still fails loudly.
_scan_base = SourceFile.scan


def _scan_skipping_lint_levels(self, p, end, impl):
    if impl is None and p == 0:
        T = self.toks
        while T[p].k == "p" and T[p].s == "#" and T[p + 1].k == "p" and T[p + 1].s == "!" and T[p + 2].k == "p" and T[p + 2].s == "[":
            e = self.skip_balanced(p + 2)
            txt = attr_text(T[p + 3:e - 1])
            if not re.fullmatch(r"(allow|warn|deny|forbid)\([A-Za-z0-9_:,]*\)", txt):
                raise U(T[p].line, f"inner attribute not understood: #![{txt}]")
            p = e
    return _scan_base(self, p, end, impl)


SourceFile.scan = _scan_skipping_lint_levels


# ======================================================================================= types
# Translator types: 'u8' 'u16' 'u32' 'u64' 'u128' 'usize' (machine integers), 'Uint64' 'Uint128' 'Uint256'
# 'Uint512' (cosmwasm wrappers), 'Decimal' (128-bit atomics, 18 places), 'Decimal256' (256-bit atomics),
# 'bool', 'unit', 'str', 'err' (an error VALUE: never inspected, `Res.err` carries no payload),
# ('opt', T)  Option<T> as DATA            -> Lean `Option T`
# ('res', T)  Result<T, _> and Option<T> produced by a checked operation / returned by a function
#                                          -> Lean `Res T` with Err / None = `Res.err`
# ('struct', key) ('enum', key) ('array', T, n)
# Every numeric type is a Lean `Nat`; the machine range is made explicit by the primitive chosen in SEM.
INTS = ("u8", "u16", "u32", "u64", "u128", "usize")
UINTS = ("Uint64", "Uint128", "Uint256", "Uint512")
DECS = ("Decimal", "Decimal256")
NUMERIC = INTS + UINTS + DECS
MAXOF = {"u8": "U8MAX", "u16": "U16MAX", "u32": "U32MAX", "u64": "U64MAX", "usize": "U64MAX", "u128": "U128MAX",
         "Uint64": "U64MAX", "Uint128": "U128MAX", "Uint256": "U256MAX", "Uint512": "U512MAX",
         "Decimal": "U128MAX", "Decimal256": "U256MAX"}
BITS = {"u8": 8, "u16": 16, "u32": 32, "u64": 64, "usize": 64, "u128": 128, "Uint64": 64, "Uint128": 128,
        "Uint256": 256, "Uint512": 512, "Decimal": 128, "Decimal256": 256}
INTO256 = ("u8", "u16", "u32", "u64", "u128", "Uint64", "Uint128", "Uint256")   # impl Into<Uint256>
INTO128 = ("u8", "u16", "u32", "u64", "u128", "Uint64", "Uint128")             # impl Into<Uint128>
SAME = "SAME"  # second operand must have the type of the first


def R(kind, name, args, res, tpl, eff, cite):
    return dict(kind=kind, name=name, args=args, res=res, tpl=tpl, eff=eff, cite=cite)


# ======================================================================================= THE SEMANTIC TABLE
# kind 'bin'  : binary operator, args = (left type, right type)
# kind 'm'    : method call, args = (receiver type, argument types…)
# kind 'f'    : associated function `T::f`, args = argument types
# kind 'conv' : `.into()` / `T::from(x)` (name 'into') and `.try_into()` / `T::try_from(x)` (name 'try_into'),
#               args = (source type,), res = target type
# kind 'cast' : `x as T`, args = (source type,), res = T
# A type entry may be a tuple of alternatives.  `{0}` `{1}` … are the operands (receiver first).
# eff 'pure' : tpl is a Lean VALUE of the result type (for ('res', T): a `Res T` value that a following
#              `?` binds, `.unwrap()` turns into a panic, a function tail returns)
# eff 'bind' : tpl is a `Res` computation that is run where the Rust evaluates the operation (it may PANIC);
#              res is the type of the value it yields
# Citations are to cosmwasm-std 1.5.4 `src/math/<file>` unless another crate is named.  Release and test
# profiles of the workspace have overflow-checks on, so primitive-integer `+ - *` panic on overflow.
SEM = [
    # ---- Uint128 ------------------------------------------------------------------------------------------
    R("bin", "+", ("Uint128", "Uint128"), "Uint128", "padd U128MAX {0} {1}", "bind", "uint128.rs impl Add: checked_add(..).unwrap() -> panic on overflow"),
    R("bin", "-", ("Uint128", "Uint128"), "Uint128", "psub {0} {1}", "bind", "uint128.rs impl Sub: checked_sub(..).unwrap() -> panic on underflow"),
    R("bin", "*", ("Uint128", "Uint128"), "Uint128", "pmul U128MAX {0} {1}", "bind", "uint128.rs impl Mul: checked_mul(..).unwrap() -> panic on overflow"),
    R("bin", "/", ("Uint128", "Uint128"), "Uint128", "pdiv {0} {1}", "bind", "uint128.rs impl Div: checked_div(..).unwrap() -> panic on /0"),
    R("bin", "*", ("Uint128", "Decimal"), "Uint128", "u128MulDec {0} {1}", "bind", "decimal.rs impl Mul<Decimal> for Uint128: 0 if either is 0, else multiply_ratio(rhs.atomics, 10^18): floor, panic on overflow"),
    R("m", "checked_add", ("Uint128", "Uint128"), ("res", "Uint128"), "cadd U128MAX {0} {1}", "pure", "uint128.rs checked_add: Err(Overflow) above 2^128-1"),
    R("m", "checked_sub", ("Uint128", "Uint128"), ("res", "Uint128"), "csub {0} {1}", "pure", "uint128.rs checked_sub: Err(Overflow) below 0"),
    R("m", "checked_mul", ("Uint128", "Uint128"), ("res", "Uint128"), "cmul U128MAX {0} {1}", "pure", "uint128.rs checked_mul: Err(Overflow)"),
    R("m", "checked_div", ("Uint128", "Uint128"), ("res", "Uint128"), "cdiv {0} {1}", "pure", "uint128.rs checked_div: Err(DivideByZero), floor"),
    R("m", "saturating_sub", ("Uint128", "Uint128"), "Uint128", "({0} - {1})", "pure", "uint128.rs saturating_sub: max(0, a-b) = truncated subtraction on Nat"),
    R("m", "saturating_add", ("Uint128", "Uint128"), "Uint128", "satAdd U128MAX {0} {1}", "pure", "uint128.rs saturating_add: min(a+b, 2^128-1)"),
    R("m", "saturating_mul", ("Uint128", "Uint128"), "Uint128", "satMul U128MAX {0} {1}", "pure", "uint128.rs saturating_mul: min(a*b, 2^128-1)"),
    R("m", "multiply_ratio", ("Uint128", INTO128, INTO128), "Uint128", "mulRatioP U128MAX {0} {1} {2}", "bind", "uint128.rs multiply_ratio: full_mul, floor; panics on /0 and on overflow"),
    R("m", "checked_multiply_ratio", ("Uint128", INTO128, INTO128), ("res", "Uint128"), "mulRatioC U128MAX {0} {1} {2}", "pure", "uint128.rs checked_multiply_ratio: Err on /0 and overflow"),
    R("m", "is_zero", ("Uint128",), "bool", "decide ({0} = 0)", "pure", "uint128.rs is_zero"),
    R("m", "u128", ("Uint128",), "u128", "{0}", "pure", "uint128.rs u128(): the wrapped value"),
    R("f", "Uint128::new", ("u128",), "Uint128", "{0}", "pure", "uint128.rs new"),
    R("f", "Uint128::zero", (), "Uint128", "0", "pure", "uint128.rs zero"),
    R("f", "Uint128::one", (), "Uint128", "1", "pure", "uint128.rs one"),
    # ---- Uint256 ------------------------------------------------------------------------------------------
    R("bin", "+", ("Uint256", "Uint256"), "Uint256", "padd U256MAX {0} {1}", "bind", "uint256.rs impl Add: checked_add(..).unwrap() -> panic on overflow"),
    R("bin", "-", ("Uint256", "Uint256"), "Uint256", "psub {0} {1}", "bind", "uint256.rs impl Sub: checked_sub(..).unwrap() -> panic on underflow"),
    R("bin", "*", ("Uint256", "Uint256"), "Uint256", "pmul U256MAX {0} {1}", "bind", "uint256.rs impl Mul: checked_mul(..).unwrap() -> panic on overflow"),
    R("bin", "/", ("Uint256", "Uint256"), "Uint256", "pdiv {0} {1}", "bind", "uint256.rs impl Div: checked_div(..).unwrap() -> panic on /0"),
    R("bin", "*", ("Uint256", "Decimal256"), "Uint256", "u256MulDec {0} {1}", "bind", "decimal256.rs impl Mul<Decimal256> for Uint256: 0 if either is 0, else multiply_ratio(rhs.atomics, 10^18): floor, panic on overflow"),
    R("m", "mul", ("Uint256", "Uint256"), "Uint256", "pmul U256MAX {0} {1}", "bind", "core::ops::Mul::mul = the `*` operator of uint256.rs (panic on overflow)"),
    R("m", "add", ("Uint256", "Uint256"), "Uint256", "padd U256MAX {0} {1}", "bind", "core::ops::Add::add = the `+` operator of uint256.rs"),
    R("m", "sub", ("Uint256", "Uint256"), "Uint256", "psub {0} {1}", "bind", "core::ops::Sub::sub = the `-` operator of uint256.rs"),
    R("m", "checked_add", ("Uint256", "Uint256"), ("res", "Uint256"), "cadd U256MAX {0} {1}", "pure", "uint256.rs checked_add: Err(Overflow)"),
    R("m", "checked_sub", ("Uint256", "Uint256"), ("res", "Uint256"), "csub {0} {1}", "pure", "uint256.rs checked_sub: Err(Overflow)"),
    R("m", "checked_mul", ("Uint256", "Uint256"), ("res", "Uint256"), "cmul U256MAX {0} {1}", "pure", "uint256.rs checked_mul: Err(Overflow)"),
    R("m", "checked_div", ("Uint256", "Uint256"), ("res", "Uint256"), "cdiv {0} {1}", "pure", "uint256.rs checked_div: Err(DivideByZero), floor"),
    R("m", "saturating_sub", ("Uint256", "Uint256"), "Uint256", "({0} - {1})", "pure", "uint256.rs saturating_sub: truncated subtraction"),
    R("m", "saturating_add", ("Uint256", "Uint256"), "Uint256", "satAdd U256MAX {0} {1}", "pure", "uint256.rs saturating_add"),
    R("m", "saturating_mul", ("Uint256", "Uint256"), "Uint256", "satMul U256MAX {0} {1}", "pure", "uint256.rs saturating_mul"),
    R("m", "multiply_ratio", ("Uint256", INTO256, INTO256), "Uint256", "mulRatioP U256MAX {0} {1} {2}", "bind", "uint256.rs multiply_ratio: full_mul (512 bit), floor; panics on /0 and overflow"),
    R("m", "checked_multiply_ratio", ("Uint256", INTO256, INTO256), ("res", "Uint256"), "mulRatioC U256MAX {0} {1} {2}", "pure", "uint256.rs checked_multiply_ratio"),
    R("m", "is_zero", ("Uint256",), "bool", "decide ({0} = 0)", "pure", "uint256.rs is_zero"),
    R("f", "Uint256::zero", (), "Uint256", "0", "pure", "uint256.rs zero"),
    R("f", "Uint256::one", (), "Uint256", "1", "pure", "uint256.rs one"),
    R("f", "Uint256::from_u128", ("u128",), "Uint256", "{0}", "pure", "uint256.rs from_u128 (const, lossless)"),
    R("f", "Uint256::from_uint128", ("Uint128",), "Uint256", "{0}", "pure", "uint256.rs from_uint128 (lossless)"),
    # ---- Uint512 ------------------------------------------------------------------------------------------
    R("m", "checked_add", ("Uint512", "Uint512"), ("res", "Uint512"), "cadd U512MAX {0} {1}", "pure", "uint512.rs checked_add: Err(Overflow)"),
    R("m", "checked_sub", ("Uint512", "Uint512"), ("res", "Uint512"), "csub {0} {1}", "pure", "uint512.rs checked_sub: Err(Overflow)"),
    R("m", "checked_mul", ("Uint512", "Uint512"), ("res", "Uint512"), "cmul U512MAX {0} {1}", "pure", "uint512.rs checked_mul: Err(Overflow)"),
    R("m", "checked_div", ("Uint512", "Uint512"), ("res", "Uint512"), "cdiv {0} {1}", "pure", "uint512.rs checked_div: Err(DivideByZero), floor"),
    R("f", "Uint512::zero", (), "Uint512", "0", "pure", "uint512.rs zero"),
    R("f", "Uint512::one", (), "Uint512", "1", "pure", "uint512.rs one"),
    # ---- Decimal (128-bit atomics) ------------------------------------------------------------------------
    R("f", "Decimal::zero", (), "Decimal", "0", "pure", "decimal.rs zero"),
    R("f", "Decimal::one", (), "Decimal", "E18", "pure", "decimal.rs one = DECIMAL_FRACTIONAL = 10^18 atomics"),
    R("f", "Decimal::percent", ("u64",), "Decimal", "({0} * 10000000000000000)", "pure", "decimal.rs percent: (x as u128) * 10^16, cannot overflow for x: u64"),
    R("f", "Decimal::raw", ("u128",), "Decimal", "{0}", "pure", "decimal.rs raw: atomics"),
    R("f", "Decimal::from_ratio", (INTO128, INTO128), "Decimal", "dec128FromRatio {0} {1}", "bind", "decimal.rs from_ratio: n*10^18/d floor; panics on /0 and overflow"),
    R("m", "checked_add", ("Decimal", "Decimal"), ("res", "Decimal"), "cadd U128MAX {0} {1}", "pure", "decimal.rs checked_add on the atomics: Err(Overflow)"),
    R("m", "checked_sub", ("Decimal", "Decimal"), ("res", "Decimal"), "csub {0} {1}", "pure", "decimal.rs checked_sub on the atomics"),
    R("bin", "+", ("Decimal", "Decimal"), "Decimal", "padd U128MAX {0} {1}", "bind", "decimal.rs impl Add: Uint128 + (panics)"),
    R("bin", "-", ("Decimal", "Decimal"), "Decimal", "psub {0} {1}", "bind", "decimal.rs impl Sub: Uint128 - (panics)"),
    R("bin", "*", ("Decimal", "Decimal"), "Decimal", "dec128Mul {0} {1}", "bind", "decimal.rs impl Mul: full_mul / 10^18 floor, panic when the result exceeds 128 bits"),
    R("m", "inv", ("Decimal",), ("opt", "Decimal"), "decInv {0}", "pure", "decimal.rs Fraction::inv: None for 0, else 10^36 / atomics (floor)"),
    R("m", "is_zero", ("Decimal",), "bool", "decide ({0} = 0)", "pure", "decimal.rs is_zero"),
    R("m", "atomics", ("Decimal",), "Uint128", "{0}", "pure", "decimal.rs atomics"),
    # ---- Decimal256 (256-bit atomics) ---------------------------------------------------------------------
    R("f", "Decimal256::zero", (), "Decimal256", "0", "pure", "decimal256.rs zero"),
    R("f", "Decimal256::one", (), "Decimal256", "E18", "pure", "decimal256.rs one = 10^18 atomics"),
    R("f", "Decimal256::percent", ("u64",), "Decimal256", "({0} * 10000000000000000)", "pure", "decimal256.rs percent"),
    R("f", "Decimal256::raw", ("u128",), "Decimal256", "{0}", "pure", "decimal256.rs raw(value: u128): atomics"),
    R("f", "Decimal256::from_ratio", (INTO256, INTO256), "Decimal256", "dec256FromRatio {0} {1}", "bind", "decimal256.rs from_ratio: checked_from_ratio, panics \"Denominator must not be zero\" / \"Multiplication overflow\""),
    R("f", "Decimal256::checked_from_ratio", (INTO256, INTO256), ("res", "Decimal256"), "dec256FromRatioC {0} {1}", "pure", "decimal256.rs checked_from_ratio: n.checked_multiply_ratio(10^18, d)"),
    R("f", "Decimal256::from_atomics", (INTO256, "u32"), ("res", "Decimal256"), "dec256FromAtomics {0} {1}", "pure", "decimal256.rs from_atomics: places<18: atomics.checked_mul(10^(18-places)) -> Err(RangeExceeded); =18: atomics; >18: atomics / 10^(places-18)"),
    R("m", "checked_add", ("Decimal256", "Decimal256"), ("res", "Decimal256"), "cadd U256MAX {0} {1}", "pure", "decimal256.rs checked_add on the atomics"),
    R("m", "checked_sub", ("Decimal256", "Decimal256"), ("res", "Decimal256"), "csub {0} {1}", "pure", "decimal256.rs checked_sub on the atomics"),
    R("m", "checked_mul", ("Decimal256", "Decimal256"), ("res", "Decimal256"), "dec256MulC {0} {1}", "pure", "decimal256.rs checked_mul: full_mul / 10^18 floor, Err(Overflow) above 256 bits"),
    R("m", "checked_div", ("Decimal256", "Decimal256"), ("res", "Decimal256"), "dec256DivC {0} {1}", "pure", "decimal256.rs checked_div = checked_from_ratio(self.atomics, other.atomics)"),
    R("m", "checked_pow", ("Decimal256", "u32"), ("res", "Decimal256"), "dec256PowC {0} {1}", "pure", "decimal256.rs checked_pow: square-and-multiply with checked_mul, final unchecked `x * y`"),
    R("bin", "+", ("Decimal256", "Decimal256"), "Decimal256", "padd U256MAX {0} {1}", "bind", "decimal256.rs impl Add: Uint256 + (panics)"),
    R("bin", "-", ("Decimal256", "Decimal256"), "Decimal256", "psub {0} {1}", "bind", "decimal256.rs impl Sub: Uint256 - (panics)"),
    R("bin", "*", ("Decimal256", "Decimal256"), "Decimal256", "dec256Mul {0} {1}", "bind", "decimal256.rs impl Mul: full_mul / 10^18 floor, panic \"attempt to multiply with overflow\""),
    R("m", "is_zero", ("Decimal256",), "bool", "decide ({0} = 0)", "pure", "decimal256.rs is_zero"),
    R("m", "atomics", ("Decimal256",), "Uint256", "{0}", "pure", "decimal256.rs atomics"),
    R("f", "Decimal256::new", ("Uint256",), "Decimal256", "{0}", "pure", "decimal256.rs `pub const fn new(value: Uint256) -> Self { Self(value) }`: the atomics"),
    R("m", "decimal_places", ("Decimal256",), "u32", "18", "pure", "decimal256.rs `decimal_places(&self) -> u32 { Self::DECIMAL_PLACES }`, DECIMAL_PLACES = 18"),
    # ---- machine integers (overflow checks ON in every profile of the workspace) ---------------------------
    R("bin", "+", ("u64", "u64"), "u64", "padd U64MAX {0} {1}", "bind", "core: u64 + with overflow-checks: panic"),
    R("bin", "-", ("u64", "u64"), "u64", "psub {0} {1}", "bind", "core: u64 - with overflow-checks: panic"),
    R("bin", "*", ("u64", "u64"), "u64", "pmul U64MAX {0} {1}", "bind", "core: u64 * with overflow-checks: panic"),
    R("bin", "/", ("u64", "u64"), "u64", "pdiv {0} {1}", "bind", "core: u64 /: panic on /0"),
    R("bin", "+", ("u128", "u128"), "u128", "padd U128MAX {0} {1}", "bind", "core: u128 +"),
    R("bin", "-", ("u128", "u128"), "u128", "psub {0} {1}", "bind", "core: u128 -"),
    R("bin", "*", ("u128", "u128"), "u128", "pmul U128MAX {0} {1}", "bind", "core: u128 *"),
    R("bin", "/", ("u128", "u128"), "u128", "pdiv {0} {1}", "bind", "core: u128 /"),
    R("bin", "-", ("u32", "u32"), "u32", "psub {0} {1}", "bind", "core: u32 -"),
    R("m", "checked_add", ("u64", "u64"), ("res", "u64"), "cadd U64MAX {0} {1}", "pure", "core: u64::checked_add -> None on overflow (None = err)"),
    R("m", "checked_sub", ("u64", "u64"), ("res", "u64"), "csub {0} {1}", "pure", "core: u64::checked_sub -> None below 0"),
    R("m", "checked_mul", ("u64", "u64"), ("res", "u64"), "cmul U64MAX {0} {1}", "pure", "core: u64::checked_mul"),
    R("m", "checked_div", ("u64", "u64"), ("res", "u64"), "cdiv {0} {1}", "pure", "core: u64::checked_div -> None on /0"),
    R("m", "checked_add", ("u128", "u128"), ("res", "u128"), "cadd U128MAX {0} {1}", "pure", "core: u128::checked_add"),
    R("m", "checked_sub", ("u128", "u128"), ("res", "u128"), "csub {0} {1}", "pure", "core: u128::checked_sub"),
    R("m", "checked_mul", ("u128", "u128"), ("res", "u128"), "cmul U128MAX {0} {1}", "pure", "core: u128::checked_mul"),
    R("m", "checked_div", ("u128", "u128"), ("res", "u128"), "cdiv {0} {1}", "pure", "core: u128::checked_div"),
    R("m", "checked_add", ("u8", "u8"), ("res", "u8"), "cadd U8MAX {0} {1}", "pure", "core: u8::checked_add"),
    R("m", "checked_mul", ("u8", "u8"), ("res", "u8"), "cmul U8MAX {0} {1}", "pure", "core: u8::checked_mul"),
    R("m", "pow", ("u128", "u32"), "u128", "ppow U128MAX {0} {1}", "bind", "core: u128::pow with overflow-checks: panic on overflow"),
    R("m", "pow", ("u64", "u32"), "u64", "ppow U64MAX {0} {1}", "bind", "core: u64::pow"),
    R("m", "to_u128", (("u8", "u32", "u64", "u128"),), ("res", "u128"), "Res.ok {0}", "pure", "num-traits 0.2 ToPrimitive::to_u128 on an unsigned integer <= 128 bits: always Some"),
    R("m", "to_u64", (("u64", "u128"),), ("res", "u64"), "narrowTo U64MAX {0}", "pure", "num-traits 0.2 ToPrimitive::to_u64: None above 2^64-1"),
    # ---- comparisons, min / max (same type on both sides; all derive Ord on the wrapped integer) -------------
    R("bin", "<", (NUMERIC, SAME), "bool", "decide ({0} < {1})", "pure", "Ord on the wrapped unsigned integer / atomics"),
    R("bin", "<=", (NUMERIC, SAME), "bool", "decide ({0} ≤ {1})", "pure", "Ord"),
    R("bin", ">", (NUMERIC, SAME), "bool", "decide ({0} > {1})", "pure", "Ord"),
    R("bin", ">=", (NUMERIC, SAME), "bool", "decide ({0} ≥ {1})", "pure", "Ord"),
    R("bin", "==", (NUMERIC, SAME), "bool", "decide ({0} = {1})", "pure", "Eq"),
    R("bin", "!=", (NUMERIC, SAME), "bool", "decide ({0} ≠ {1})", "pure", "Eq"),
    R("m", "max", (NUMERIC, SAME), SAME, "max {0} {1}", "pure", "core::cmp::Ord::max"),
    R("m", "min", (NUMERIC, SAME), SAME, "min {0} {1}", "pure", "core::cmp::Ord::min"),
    # ---- lossless conversions: `.into()`, `T::from(x)` ------------------------------------------------------
    R("conv", "into", (("u8", "u16", "u32", "u64"),), "u128", "{0}", "pure", "core: From<uN> for u128"),
    R("conv", "into", (("u8", "u16"),), "u32", "{0}", "pure", "core: From<u8/u16> for u32"),
    R("conv", "into", (("u8", "u16", "u32"),), "u64", "{0}", "pure", "core: From<uN> for u64"),
    R("conv", "into", (("u8", "u16", "u32", "u64", "u128", "Uint64"),), "Uint128", "{0}", "pure", "uint128.rs From<uN> / From<Uint64>"),
    R("conv", "into", (("u8", "u16", "u32", "u64", "u128", "Uint64", "Uint128"),), "Uint256", "{0}", "pure", "uint256.rs From<uN> / From<Uint64> / From<Uint128>"),
    R("conv", "into", (("u8", "u16", "u32", "u64", "u128", "Uint64", "Uint128", "Uint256"),), "Uint512", "{0}", "pure", "uint512.rs From<uN> / From<Uint64> / From<Uint128> / From<Uint256>"),
    R("conv", "into", ("Decimal",), "Decimal256", "{0}", "pure", "decimal256.rs From<Decimal>: same atomics, same 18 places"),
    R("conv", "into", ("err",), "err", "{0}", "pure", "error conversion (From<StdError> for ContractError …): error values are not modelled"),
    # ---- fallible conversions: `.try_into()`, `T::try_from(x)` ---------------------------------------------
    R("conv", "try_into", ("Uint256",), "Uint128", "narrowTo U128MAX {0}", "pure", "uint128.rs TryFrom<Uint256>: Err(ConversionOverflow) above 2^128-1"),
    R("conv", "try_into", ("Uint512",), "Uint256", "narrowTo U256MAX {0}", "pure", "uint256.rs TryFrom<Uint512>"),
    R("conv", "try_into", ("Uint512",), "Uint128", "narrowTo U128MAX {0}", "pure", "uint128.rs TryFrom<Uint512>"),
    R("conv", "try_into", ("Uint128",), "Uint64", "narrowTo U64MAX {0}", "pure", "uint64.rs TryFrom<Uint128>"),
    R("conv", "try_into", (("u128", "Uint128"),), "u64", "narrowTo U64MAX {0}", "pure", "core TryFrom<u128> for u64"),
    # ---- `as` casts between machine integers ---------------------------------------------------------------
    R("cast", "as", (("u8", "u16", "u32", "u64"),), "u128", "{0}", "pure", "Rust reference: widening unsigned cast is lossless"),
    R("cast", "as", (("u8", "u16", "u32"),), "u64", "{0}", "pure", "widening"),
    R("cast", "as", (("u8", "u16"),), "u32", "{0}", "pure", "widening"),
    R("cast", "as", ("u128",), "u64", "({0} % 18446744073709551616)", "pure", "narrowing unsigned cast truncates: mod 2^64"),
    R("cast", "as", (("u64", "u128"),), "u32", "({0} % 4294967296)", "pure", "narrowing: mod 2^32"),
]


# Structural rules implemented in `class Tr` (not operand-type dependent), listed here for the reader:
STRUCTURAL = [
    ("e?", "bind of the `Res` value of e; on an Option held as data: `optErr e` (None = err)"),
    ("e.unwrap() / e.expect(..)", "`unwrapPanic e` (Err / None -> panic); on Option data: `optPanic e`"),
    ("e.unwrap_or(d)", "Option data: `Option.getD e d`; d is evaluated first-come (eagerly), as in Rust"),
    ("e.ok_or(x) / e.ok_or_else(|| x)", "Option data -> `optErr e`; x must be an error constructor"),
    ("e.map_err(|_| x)", "identity on the `Res` value; x must be an error constructor"),
    ("e.clone() / *e / &e", "identity (values are immutable numbers)"),
    ("(a..=b).contains(&x) / (a..b).contains(&x)", "`a ≤ x ∧ x ≤ b` / `a ≤ x ∧ x < b`"),
    ("Ok(x) / Some(x) in result position", "`Res.ok x`;  Err(..) / None in result position: `Res.err`"),
    ("Some(x) / None as data", "`some x` / `none`"),
    ("return Err(..) / return None", "`Res.err` as the last element of its block"),
    ("a && b, a || b", "b is evaluated only when needed; its effects are placed inside the branch"),
    ("T::from(x) / x.into() / T::try_from(x) / x.try_into()", "rows `conv` of SEM, target type from the context"),
    ("Decimal::from_str(CONST)", "CONST: &str constant of the same file, parsed at translation time by the rules of decimal.rs FromStr (<= 18 fractional digits), `Res.ok atomics`"),
    ("10u128.pow(18) etc.", "row `pow` of SEM (ppow: panics above the type's maximum)"),
    ("integer literal", "checked against the range of its (inferred) type"),
    ("match on an enum / Option, if let Some(x) = e", "Lean `match`; every arm is translated unless the kernel is specialised to one variant"),
    ("for _ in 0..N { body }", "fuel-style structural recursion over the mutable locals the body assigns; `break` ends it"),
    ("for _ in 0..N { body with `return x` exits } rest-of-function",
     "an auxiliary fuel-recursive definition whose result is the FUNCTION's result: `return x` = that result, end of the body = the recursive call, the code after the loop = the case of no rounds left"),
    ("[x1, .., xn].into_iter().try_fold(init, |acc, x| { body })?",
     "literal array only: the closure body unrolled over the elements in order, one nested `do` per element, threading acc; `?` inside the closure and an `Err` result both end the function with `Res.err` (core::iter::Iterator::try_fold stops at the first Err; the trailing `?` returns it)"),
    ("x: impl Into<T> (parameter of a kernel)", "the parameter has type T; each call site converts its argument by a `conv into` row"),
    ("recv.m(..) / T::f(..) with m, f in `impl Trait for T` (T a cosmwasm type)",
     "call of the kernel translated from that impl (KERNELS rows with impl = \"Trait for T\"); only when SEM has no row of that name on T (an inherent method would win in Rust too) — cosmwasm-std 1.5.4 decimal256.rs defines no inherent decimal_with_precision / checked_multiply_ratio / to_uint256_with_precision; the trait is assumed in scope (`use crate::math::Decimal256Helper`)"),
    ("if c { ..; return v; } rest   (v not Err/None, in the function's own statement sequence)", "`if c then v else rest`"),
    ("specialize = {param: Enum::Variant} with a struct variant",
     "the variant's fields replace the parameter (under the field names of the enum definition); the arm's bindings are `let`s of those"),
]

# ---- additions: Uint64 / Timestamp rows for the epoch and configuration validators --------------------------
# (kept as a separate block so that the table above can grow independently; same row format)
SEM += [
    R("f", "Uint64::new", ("u64",), "Uint64", "{0}", "pure", "uint64.rs new: `Uint64(value)`"),
    R("f", "Uint64::zero", (), "Uint64", "0", "pure", "uint64.rs zero: `Uint64(0)`"),
    R("f", "Uint64::one", (), "Uint64", "1", "pure", "uint64.rs one: `Self(1)`"),
    R("m", "checked_add", ("Uint64", "Uint64"), ("res", "Uint64"), "cadd U64MAX {0} {1}", "pure", "uint64.rs checked_add: u64::checked_add, Err(OverflowError) above 2^64-1"),
    R("m", "checked_sub", ("Uint64", "Uint64"), ("res", "Uint64"), "csub {0} {1}", "pure", "uint64.rs checked_sub: u64::checked_sub, Err(OverflowError) below 0"),
    R("m", "checked_mul", ("Uint64", "Uint64"), ("res", "Uint64"), "cmul U64MAX {0} {1}", "pure", "uint64.rs checked_mul: u64::checked_mul, Err(OverflowError)"),
    R("m", "checked_div", ("Uint64", "Uint64"), ("res", "Uint64"), "cdiv {0} {1}", "pure", "uint64.rs checked_div: u64::checked_div, Err(DivideByZeroError) on /0, floor"),
    R("m", "is_zero", ("Uint64",), "bool", "decide ({0} = 0)", "pure", "uint64.rs is_zero"),
    R("m", "u64", ("Uint64",), "u64", "{0}", "pure", "uint64.rs u64(): the wrapped value"),
    R("m", "nanos", ("Timestamp",), "u64", "{0}", "pure", "cosmwasm-std 1.5.4 src/timestamp.rs: `struct Timestamp(Uint64)` (nanoseconds since the Unix epoch); nanos() = self.0.u64()"),
    R("m", "seconds", ("Timestamp",), "u64", "({0} / 1000000000)", "pure", "src/timestamp.rs seconds() = self.0.u64() / 1_000_000_000 (truncating u64 division by a non-zero literal)"),
    R("f", "Timestamp::default", (), "Timestamp", "0", "pure", "src/timestamp.rs #[derive(Default)] on `Timestamp(Uint64)`; uint64.rs #[derive(Default)] on `Uint64(u64)`: 0 ns"),
    R("bin", "==", ("Timestamp", "Timestamp"), "bool", "decide ({0} = {1})", "pure", "src/timestamp.rs #[derive(PartialEq, Eq)] on `Timestamp(Uint64)`: equality of the nanoseconds"),
    R("bin", "!=", ("Timestamp", "Timestamp"), "bool", "decide ({0} ≠ {1})", "pure", "src/timestamp.rs #[derive(PartialEq, Eq)]"),
]
STRUCTURAL += [
    ("Timestamp", "a `cosmwasm_std::Timestamp` value is the `Nat` of its nanoseconds (`struct Timestamp(Uint64)`); rows: `.nanos()`, `.seconds()`, `Timestamp::default()`, `==` / `!=`"),
    ("e.ok_or(x) / e.ok_or_else(|| x) on the Option of a primitive `checked_*` operation",
     "identity on the `Res` value (such an Option is a `Res` with None = `err` already); x must be an error constructor"),
]
# `Timestamp` as a parameter / field type: a number that is none of NUMERIC (no arithmetic, no comparison rows
# apply to it beyond the rows above: anything else on it stays UNTRANSLATABLE)
NAT_WRAPPERS = ("Timestamp",)

LEAN_RESERVED = set("""at from end fun open in do then else if let have show by match with def Type Prop Sort where deriving
instance namespace section variable universe theorem example import export calc mutual structure inductive class abbrev
macro syntax notation infix infixl infixr prefix postfix private protected partial unsafe noncomputable nomatch nofun return for
unless try catch finally mut break continue using extends set_option attribute local scoped macro_rules elab forall exists
fun max min pure bind some none true false Nat Res Option Unit Bool ok err panic decide id not and or""".split())
PRIM_NAMES = set(re.findall(r"\b[a-z][A-Za-z0-9]*\b", " ".join(r["tpl"] for r in SEM))) | {
    "unwrapPanic", "optErr", "optPanic", "E18", "U8MAX", "U16MAX", "U32MAX", "U64MAX", "U128MAX", "U256MAX", "U512MAX"}


def lean_ident(name):
    if name in LEAN_RESERVED or name in PRIM_NAMES:
        return name + "_"
    return name


def atom(s):
    """parenthesise a Lean term unless it is atomic"""
    if re.fullmatch(r"[A-Za-z_][A-Za-z0-9_'.]*|[0-9]+|\(\)", s):
        return s
    if s.startswith("(") and s.endswith(")"):
        depth = 0
        for i, c in enumerate(s):
            if c == "(":
                depth += 1
            elif c == ")":
                depth -= 1
                if depth == 0 and i != len(s) - 1:
                    break
        else:
            return s
    return "(" + s + ")"


def wrap(prefix, lines, suffix=""):
    out = [prefix + lines[0]] + ["    " + l for l in lines[1:]]
    out[-1] += suffix
    return out


def indent(lines):
    return ["  " + l for l in lines]


def parse_decimal_str(s, line):
    """cosmwasm-std decimal.rs `impl FromStr for Decimal`"""
    parts = s.split(".")
    if len(parts) > 2:
        raise U(line, "Decimal::from_str: unexpected number of dots (always Err)")
    if not re.fullmatch(r"\+?[0-9]+", parts[0]):
        raise U(line, "Decimal::from_str: whole part does not parse (always Err)")
    atomics = int(parts[0]) * 10 ** 18
    if len(parts) == 2:
        if not re.fullmatch(r"\+?[0-9]+", parts[1]):
            raise U(line, "Decimal::from_str: fractional part does not parse (always Err)")
        digits = len(parts[1])
        if digits > 18:
            raise U(line, "Decimal::from_str: more than 18 fractional digits (always Err)")
        atomics += int(parts[1]) * 10 ** (18 - digits)
    if atomics > 2 ** 128 - 1:
        raise U(line, "Decimal::from_str: value too big (always Err)")
    return atomics


ERROR_TYPES = ("StdError", "ContractError", "OverflowError", "ConversionOverflowError", "DivideByZeroError")
NEVER = "never"


# ======================================================================================= registry
class Ctx:
    def __init__(self, types, kernels):
        self.files = {}
        self.types = types          # key -> dict(rust, file, lean)
        self.kernels = kernels      # list of kernel dicts (see KERNELS)
        self.typedefs = {}
        self.used_types = []

    def file(self, rel):
        if rel not in self.files:
            self.files[rel] = SourceFile(rel)
        return self.files[rel]

    def typedef(self, key):
        """('struct', [(field, type|None)], item) or ('enum', [(variant, [(field, type)]|None)], item)"""
        if key in self.typedefs:
            return self.typedefs[key]
        td = self.types[key]
        f = self.file(td["file"])
        names = td.get("names", {})
        if td["rust"] in f.structs:
            fields, it = f.struct_fields(td["rust"])
            out = []
            for fname, fty in fields:
                try:
                    out.append((fname, resolve_type(self, fty, names, None)))
                except U:
                    out.append((fname, None))  # opaque field: not part of the Lean structure
            d = ("struct", out, it)
        elif td["rust"] in f.enums:
            variants, it = f.enum_variants(td["rust"])
            out = []
            for vname, vfields in variants:
                if vfields is None:
                    out.append((vname, None))
                else:
                    out.append((vname, [(fn_, resolve_type(self, ft, names, None)) for fn_, ft in vfields]))
            d = ("enum", out, it)
        else:
            raise U(0, f"type `{td['rust']}` not found in {td['file']}")
        self.typedefs[key] = d
        if key not in self.used_types:
            self.used_types.append(key)
        return d


def resolve_type(ctx, t, names, self_ty, ret=False):
    k = t["k"]
    if k == "tref":
        return resolve_type(ctx, t["inner"], names, self_ty)
    if k == "tunit":
        return "unit"
    if k == "tarray":
        return ("array", resolve_type(ctx, t["inner"], names, self_ty), t["n"])
    if k == "tslice":
        raise U(t["line"], "slice type")
    name = t["segs"][-1]
    args = t["args"]
    if name in NUMERIC or name == "bool":
        if args:
            raise U(t["line"], "generic arguments on a primitive type")
        return name
    if name == "str":
        return "str"
    if name == "Self":
        if self_ty is None:
            raise U(t["line"], "`Self` outside an impl")
        return self_ty
    if name == "Option" and len(args) == 1:
        inner = resolve_type(ctx, args[0], names, self_ty)
        return ("res", inner) if ret else ("opt", inner)
    if name == "Result" and len(args) == 2 or name == "StdResult" and len(args) == 1:
        return ("res", resolve_type(ctx, args[0], names, self_ty))
    if name in names and not args:
        key = names[name]
        kind = ctx.typedef(key)[0]
        return (kind, key)
    raise U(t["line"], f"type `{name}` is not in the translator's type table")


def lean_type(ctx, t):
    if t in NUMERIC:
        return "Nat"
    if t == "bool":
        return "Bool"
    if t == "unit":
        return "Unit"
    if isinstance(t, tuple):
        if t[0] == "opt":
            return "Option " + atom(lean_type(ctx, t[1]))
        if t[0] == "res":
            return "Res " + atom(lean_type(ctx, t[1]))
        if t[0] in ("struct", "enum"):
            return ctx.types[t[1]]["lean"]
        if t[0] == "array":
            return " × ".join([atom(lean_type(ctx, t[1]))] * t[2])
    raise U(0, f"no Lean type for {t}")


def show_type(t):
    if isinstance(t, tuple):
        return t[0] + "<" + ",".join(show_type(x) if not isinstance(x, int) else str(x) for x in t[1:]) + ">"
    return str(t)


# ---- additions: `Timestamp` (see NAT_WRAPPERS) in the type resolver, as wrappers around the functions above
_resolve_type_base = resolve_type
_lean_type_base = lean_type


def resolve_type(ctx, t, names, self_ty, ret=False):   # noqa: F811 (deliberate wrapper; the recursive calls reach it)
    if t["k"] == "tpath" and t["segs"][-1] in NAT_WRAPPERS:
        if t["args"]:
            raise U(t["line"], "generic arguments on a primitive type")
        return t["segs"][-1]
    return _resolve_type_base(ctx, t, names, self_ty, ret)


def lean_type(ctx, t):   # noqa: F811
    if t in NAT_WRAPPERS:
        return "Nat"
    return _lean_type_base(ctx, t)


# ======================================================================================= translator
def type_matches(spec, t, first=None):
    if spec == SAME:
        return t == first
    if isinstance(spec, tuple) and spec and spec[0] not in ("opt", "res", "struct", "enum", "array"):
        return t in spec
    return spec == t


def is_error_path(segs):
    return segs[0] in ERROR_TYPES or (len(segs) >= 2 and segs[-2] in ERROR_TYPES)


class Tr:
    def __init__(self, ctx, kern):
        self.ctx, self.kern = ctx, kern
        self.n = 0
        self.out = []
        self.calls = []
        self.notes = []
        self.rows = set()
        self.names = kern.get("types", {})
        self.file = ctx.file(kern["file"])
        self.mutable = set()      # names declared `let mut` (function-wide; an immutable re-`let` removes the name)
        self.uninit = {}          # `let mut x: T;` without initialiser: name -> type (no value yet)
        self.assignable = set()   # names that may be assigned in the current linear region
        self.aux = []             # auxiliary definitions (loops), emitted before the function
        self.nloops = 0

    # ------------------------------------------------------------------ utilities
    def fresh(self):
        self.n += 1
        return f"t'{self.n}"

    def emit(self, line):
        self.out.append(line)

    def emit_lines(self, lines):
        self.out.extend(lines)

    def join(self, a, b, line):
        if a == NEVER:
            return b
        if b == NEVER:
            return a
        if isinstance(a, tuple) and isinstance(b, tuple) and a[0] == b[0] == "res":
            return ("res", self.join(a[1], b[1], line))
        if a != b:
            raise U(line, f"branches have different types: {show_type(a)} vs {show_type(b)}")
        return a

    def compatible(self, got, want):
        if got == want or got == NEVER:
            return True
        if isinstance(got, tuple) and isinstance(want, tuple) and got[0] == want[0] == "res":
            return self.compatible(got[1], want[1])
        return False

    def captured(self, e, mode, env, expected=None):
        """translate e as a nested Lean block: its effects stay inside, and it is a new linear region
        (an assignment to a variable of an enclosing region would be lost: not assignable here)"""
        saved, self.out = self.out, []
        saved_assignable, self.assignable = self.assignable, set()
        try:
            lines, ty = self.term_of(e, mode, env, expected)
            pre = self.out
        finally:
            self.out = saved
            self.assignable = saved_assignable
        return pre + lines, ty

    @staticmethod
    def embed(e, lines):
        """a Rust block `{ … }` embedded as one do-element keeps its own scope: `(do …)`;
           if / match terms are parenthesised already"""
        while e["k"] == "paren":
            e = e["e"]
        if e["k"] == "block":
            return wrap("(", ["do"] + indent(lines), ")")
        return lines

    def use_row(self, row):
        self.rows.add(id(row))

    # ------------------------------------------------------------------ function
    def translate(self):
        k = self.kern
        fn = self.file.parse_fn(k.get("impl"), k["fn"])
        cfg_keep(fn["item"]["attrs"], fn["item"]["line0"])
        self.item = fn["item"]
        self.self_ty = None
        if k.get("impl") and " for " in k["impl"]:
            # `impl Trait for T` with T a primitive type of the translator (the extension traits of math.rs)
            self.self_ty = resolve_type(self.ctx, N("tpath", self.item["line0"], segs=[k["impl"].split(" for ")[1]], args=[]),
                                        self.names, None)
        elif k.get("impl"):
            if k["impl"] not in self.names:
                raise U(self.item["line0"], f"impl type `{k['impl']}` is not in the kernel's type map")
            key = self.names[k["impl"]]
            self.self_ty = (self.ctx.typedef(key)[0], key)
        env, params = {}, []
        spec = k.get("specialize", {})
        self.into_params = set()
        for pname, pty in fn["params"]:
            if pname in spec:
                # the fields of the selected variant become parameters (under the FIELD names of the enum
                # definition; the arm's own binding names are local `let`s)
                t = resolve_type(self.ctx, pty, self.names, self.self_ty)
                if not (isinstance(t, tuple) and t[0] == "enum"):
                    raise U(self.item["line0"], f"specialised parameter `{pname}` is not an enum")
                want = spec[pname].split("::")
                if len(want) != 2 or self.names.get(want[0]) != t[1]:
                    raise U(self.item["line0"], f"`{spec[pname]}` does not name a variant of the type of `{pname}`")
                vf = dict(self.ctx.typedef(t[1])[1]).get(want[1], "missing")
                if vf == "missing":
                    raise U(self.item["line0"], f"unknown variant `{spec[pname]}`")
                fields = list(vf or [])
                env[pname] = ("special", spec[pname], fields)
                for fname, fty in fields:
                    params.append((lean_ident(fname), fty))
                self.notes.append(f"specialised to `{pname} = {spec[pname]}` (the parameter is " +
                                  ("replaced by the variant's fields: " + ", ".join(f for f, _ in fields) if fields else "dropped") + ")")
                continue
            t = resolve_type(self.ctx, pty, self.names, self.self_ty)
            env[pname] = t
            params.append((lean_ident(pname), t))
            if pname in fn["into_params"]:
                self.into_params.add(lean_ident(pname))
        for s in spec:
            if s not in env:
                raise U(self.item["line0"], f"specialised parameter `{s}` does not exist")
        if len({n for n, _ in params}) != len(params):
            raise U(self.item["line0"], "two parameters of the generated definition have the same name")
        self.spec_field_names = {lean_ident(f) for v in env.values() if isinstance(v, tuple) and v[0] == "special" for f, _ in v[2]}
        self.ret = "unit" if fn["ret"] is None else resolve_type(self.ctx, fn["ret"], self.names, self.self_ty, ret=True)
        self.ret_is_option = fn["ret"] is not None and fn["ret"]["k"] == "tpath" and fn["ret"]["segs"][-1] == "Option"
        lines, _ = self.captured(fn["body"], "fn", env, self.ret)
        inner = self.ret[1] if isinstance(self.ret, tuple) and self.ret[0] == "res" else self.ret
        self.params, self.ret_inner = params, inner
        sig = " ".join(f"({n} : {lean_type(self.ctx, t)})" for n, t in params)
        head = f"def {k['lean']} {sig} : Res {atom(lean_type(self.ctx, inner))} := do".replace("  :", " :")
        return [head] + indent(lines)

    # ------------------------------------------------------------------ blocks / control flow as Lean terms
    def term_of(self, e, mode, env, expected=None):
        """Lean `Res` term (list of lines) for expression e in position `mode`:
           'fn'   the function's result   'val'  a value (`pure v`)   'unit' a statement (`Res.ok ()`)"""
        k = e["k"]
        if k == "block":
            return self.block_term(e, mode, dict(env), expected)
        if k == "paren" and e["e"]["k"] in BLOCKLIKE:
            return self.term_of(e["e"], mode, env, expected)
        if k == "return":
            return self.return_term(e, mode, env)
        if k == "if":
            c = self.cond(e["cond"], env)
            tl, tt = self.captured(e["then"], mode, env, expected)
            if e["els"] is None:
                if mode == "val":
                    raise U(e["line"], "`if` without `else` used as a value")
                if mode == "fn" and self.ret != "unit":
                    raise U(e["line"], "`if` without `else` as the function result")
                el, et = (["Res.ok ()"] if mode == "unit" else ["pure ()"]), "unit"
            else:
                el, et = self.captured(e["els"], mode, env, expected)
            ty = self.join(tt, et, e["line"])
            return wrap("(", [f"if {c} then do"] + indent(tl) + ["else do"] + indent(el), ")"), ty
        if k == "iflet":
            arms = [([e["pat"]], e["then"], e["line"])]
            if e["els"] is None:
                if mode == "val" or (mode == "fn" and self.ret != "unit"):
                    raise U(e["line"], "`if let` without `else` used as a value")
                els = N("block", e["line"], stmts=[], tail=None)
            else:
                els = e["els"]
            arms.append(([N("pwild", e["line"])], els, e["line"]))
            return self.match_term(e["e"], arms, mode, env, expected, e["line"])
        if k == "match":
            return self.match_term(e["e"], e["arms"], mode, env, expected, e["line"])
        if k in ("for", "while", "loop"):
            raise U(e["line"], "loop in value position")
        # plain expression
        if mode == "fn":
            a, t = self.tr(e, env, self.ret)
            if isinstance(self.ret, tuple) and self.ret[0] == "res":
                if isinstance(t, tuple) and t[0] == "res" and self.compatible(t, self.ret):
                    return [a], t
                if isinstance(t, tuple) and t[0] == "opt" and self.ret_is_option and t[1] == self.ret[1]:
                    return [f"optErr {atom(a)}"], self.ret
                raise U(e["line"], f"function result has type {show_type(t)}, expected {show_type(self.ret)}")
            if t != self.ret:
                raise U(e["line"], f"function result has type {show_type(t)}, expected {show_type(self.ret)}")
            return [f"pure {atom(a)}"], t
        if mode == "val":
            a, t = self.tr(e, env, expected)
            if isinstance(t, tuple) and t[0] == "res":
                raise U(e["line"], "a Result/Option computation used as a block value")
            return [f"pure {atom(a)}"], t
        # unit
        a, t = self.tr(e, env, None)
        if t != "unit":
            raise U(e["line"], f"value of type {show_type(t)} discarded")
        return ["Res.ok ()"], "unit"

    def return_term(self, e, mode, env):
        if mode == "fn":
            if e["e"] is None:
                if self.ret != "unit":
                    raise U(e["line"], "`return;` in a function with a result")
                return ["pure ()"], "unit"
            return self.term_of(e["e"], "fn", env, self.ret)
        # inside a statement / value block: only an error may be returned (it propagates through bind)
        r = e["e"]
        if not (isinstance(self.ret, tuple) and self.ret[0] == "res"):
            raise U(e["line"], "early `return` in a function without Result/Option result")
        if r is not None and r["k"] == "call" and r["f"]["k"] == "path" and r["f"]["segs"] == ["Err"] and not self.ret_is_option:
            if len(r["args"]) != 1:
                raise U(e["line"], "Err(..) with several arguments")
            self.error_value(r["args"][0], env)
            return ["Res.err"], NEVER
        if r is not None and r["k"] == "path" and r["segs"] == ["None"] and self.ret_is_option:
            return ["Res.err"], NEVER
        raise U(e["line"], "early `return` of a non-error value from inside a nested block")

    def ends_in_value_return(self, blk):
        """the block's last statement is `return v` with v not an `Err(..)` / `None` (those stay statements:
        `return Err` = `Res.err` propagating through bind)"""
        if blk["k"] != "block" or blk["tail"] is not None or not blk["stmts"]:
            return False
        last = blk["stmts"][-1]
        if not (last["k"] == "sexpr" and last["e"]["k"] == "return" and last["e"]["e"] is not None):
            return False
        r = last["e"]["e"]
        if r["k"] == "call" and r["f"]["k"] == "path" and r["f"]["segs"] == ["Err"]:
            return False
        if r["k"] == "path" and r["segs"] == ["None"]:
            return False
        return True

    def block_term(self, b, mode, env, expected):
        stmts = b["stmts"]
        for i, st in enumerate(stmts):
            if st["k"] == "sexpr" and st["e"]["k"] == "return":
                if i != len(stmts) - 1 or b["tail"] is not None:
                    raise U(st["line"], "statements after `return`")
                return self.return_term(st["e"], mode, env)
            if mode == "fn" and st["k"] == "sexpr" and st["e"]["k"] == "if" and st["e"]["els"] is None \
                    and self.ends_in_value_return(st["e"]["then"]):
                # `if c { ..; return v; } rest` in the function's own statement sequence = `if c then v else rest`
                ie = st["e"]
                c = self.cond(ie["cond"], env)
                tl, tt = self.captured(ie["then"], "fn", env, self.ret)
                rest = N("block", st["line"], stmts=stmts[i + 1:], tail=b["tail"])
                el, et = self.captured(rest, "fn", env, self.ret)
                return wrap("(", [f"if {c} then do"] + indent(tl) + ["else do"] + indent(el), ")"), self.join(tt, et, st["line"])
            if st["k"] == "sexpr" and st["e"]["k"] == "for" and self.has_return(st["e"]["body"]):
                if mode != "fn":
                    raise U(st["line"], "a loop with `return` exits outside the function's own statement sequence")
                rest = N("block", st["line"], stmts=stmts[i + 1:], tail=b["tail"])
                return self.return_loop(st["e"], env, rest)
            self.stmt(st, env)
        if b["tail"] is None:
            if mode == "unit":
                return ["Res.ok ()"], "unit"
            if mode == "fn" and self.ret == "unit":
                return ["pure ()"], "unit"
            if mode == "val" and expected in (None, "unit"):
                return ["pure ()"], "unit"
            raise U(b["line"], "block without a tail expression used as a value")
        return self.term_of(b["tail"], mode, env, expected)

    def match_term(self, scrut, arms, mode, env, expected, line):
        # specialised parameter: only the selected arm exists
        if scrut["k"] == "path" and len(scrut["segs"]) == 1 and isinstance(env.get(scrut["segs"][0]), tuple) \
                and env[scrut["segs"][0]][0] == "special":
            want = env[scrut["segs"][0]][1]
            chosen = None
            for pats, body, al in arms:
                for p in pats:
                    if p["k"] in ("ppath", "pstruct") and "::".join(p["segs"]) == want:
                        if chosen is not None:
                            raise U(al, f"two arms for `{want}`")
                        if len(pats) != 1:
                            raise U(al, "or-pattern")
                        binds = []
                        if p["k"] == "pstruct":
                            vfields = dict(env[scrut["segs"][0]][2])
                            for fname, sp in p["fields"]:
                                if fname not in vfields:
                                    raise U(al, f"unknown field `{fname}` in pattern")
                                if sp["k"] == "pwild":
                                    continue
                                if sp["k"] != "pbind" or sp["mut"]:
                                    raise U(al, "nested pattern")
                                binds.append((sp["name"], fname, vfields[fname]))
                            if not p["rest"] and {f for f, _ in p["fields"]} != set(vfields):
                                raise U(al, "pattern does not list every field (and has no `..`)")
                        elif env[scrut["segs"][0]][2]:
                            raise U(al, "unit pattern on a struct variant")
                        chosen = (body, binds)
                    else:
                        self.notes.append(f"arm at line {al} not translated (kernel is specialised to `{want}`)")
            if chosen is None:
                raise U(line, f"no arm for `{want}`")
            body, binds = chosen
            env2 = dict(env)
            for local, fname, fty in binds:
                # the variant's field is a parameter of the generated definition; a local of the function that
                # shadows the field name before the `match` would be captured instead: refuse
                if fname in env and lean_ident(fname) in self.spec_field_names:
                    raise U(line, f"a local named `{fname}` shadows the specialised variant's field")
                if lean_ident(local) != lean_ident(fname):
                    self.emit(f"let {lean_ident(local)} := {lean_ident(fname)}")
                env2[local] = fty
            return self.term_of(body, mode, env2, expected)
        sa, st = self.tr(scrut, env, None)
        out, ty = [f"match {sa} with"], NEVER
        for pats, body, al in arms:
            if len(pats) != 1:
                raise U(al, "or-pattern")
            lp, binds = self.pattern(pats[0], st, al)
            env2 = dict(env)
            env2.update(binds)
            bl, bt = self.captured(body, mode, env2, expected)
            ty = self.join(ty, bt, al)
            out += [f"| {lp} => do"] + indent(bl)
        return wrap("(", out, ")"), ty

    def pattern(self, p, st, line):
        """-> (lean pattern, {rust var: type})"""
        k = p["k"]
        if k == "pwild":
            return "_", {}
        if isinstance(st, tuple) and st[0] == "opt":
            if k == "ptuple" and p["segs"] == ["Some"] and len(p["subs"]) == 1:
                s = p["subs"][0]
                if s["k"] == "pbind" and not s["mut"]:
                    return f"some {lean_ident(s['name'])}", {s["name"]: st[1]}
                if s["k"] == "pwild":
                    return "some _", {}
            if k == "ppath" and p["segs"] == ["None"]:
                return "none", {}
            raise U(line, "pattern on an Option is neither Some(x) nor None")
        if isinstance(st, tuple) and st[0] == "enum":
            kind, variants, _ = self.ctx.typedef(st[1])
            lean = self.ctx.types[st[1]]["lean"]
            if k in ("ppath", "pstruct") and len(p["segs"]) >= 1:
                vname = p["segs"][-1]
                if len(p["segs"]) >= 2 and self.names.get(p["segs"][-2]) != st[1]:
                    raise U(line, f"pattern `{'::'.join(p['segs'])}` does not name the matched enum")
                for vn, vf in variants:
                    if vn == vname:
                        break
                else:
                    raise U(line, f"unknown variant `{vname}`")
                if vf is None:
                    if k == "pstruct":
                        raise U(line, "struct pattern on a unit variant")
                    return f"{lean}.{vname}", {}
                if k != "pstruct":
                    raise U(line, "unit pattern on a struct variant")
                given = dict(p["fields"])
                if not p["rest"] and set(given) != {f for f, _ in vf}:
                    raise U(line, "pattern does not list every field (and has no `..`)")
                subs, binds = [], {}
                for fname, fty in vf:
                    if fname in given:
                        sp = given.pop(fname)
                        if sp["k"] == "pbind" and not sp["mut"]:
                            subs.append(lean_ident(sp["name"]))
                            binds[sp["name"]] = fty
                        elif sp["k"] == "pwild":
                            subs.append("_")
                        else:
                            raise U(line, "nested pattern")
                    else:
                        subs.append("_")
                if given:
                    raise U(line, f"unknown field in pattern: {sorted(given)}")
                return f"{lean}.{vname} " + " ".join(subs), binds
            raise U(line, "pattern on an enum is not a variant path")
        raise U(line, f"match on a value of type {show_type(st)}")

    # ------------------------------------------------------------------ statements
    def stmt(self, st, env):
        if st["k"] == "let":
            pat = st["pat"]
            if pat["k"] == "pwild":
                name = None
            elif pat["k"] == "pbind":
                name = pat["name"]
                self.mutable.discard(name)
                self.assignable.discard(name)
                self.uninit.pop(name, None)
                if pat["mut"]:
                    self.mutable.add(name)
                    self.assignable.add(name)
            else:
                raise U(st["line"], "destructuring `let`")
            want = resolve_type(self.ctx, st["ty"], self.names, self.self_ty) if st["ty"] is not None else None
            if st["init"] is None:
                if name is None or not pat["mut"] or want is None:
                    raise U(st["line"], "`let` without initialiser (only `let mut x: T;` is supported)")
                env.pop(name, None)
                self.uninit[name] = want
                return
            lname = lean_ident(name) if name else "_"
            init = st["init"]
            if init["k"] in BLOCKLIKE:
                lines, t = self.captured(init, "val", env, want)
                self.emit_lines(wrap(f"let {lname} ← ", self.embed(init, lines)))
            else:
                a, t = self.tr(init, env, want, hint=lname if name else None)
                if a != lname:
                    self.emit(f"let {lname} := {a}")
            if isinstance(t, tuple) and t[0] == "res":
                raise U(st["line"], "a Result / checked-Option value is stored in a variable (only `?`, `.unwrap()` or returning it are supported)")
            if want is not None and t != want:
                raise U(st["line"], f"inferred type {show_type(t)} differs from the annotation {show_type(want)}")
            if name:
                env[name] = t
            return
        if st["k"] == "sexpr":
            e = st["e"]
            if e["k"] in ("if", "iflet", "match", "block"):
                lines, _ = self.captured(e, "unit", env)
                self.emit_lines(self.embed(e, lines))
                return
            if e["k"] in ("for", "while", "loop"):
                return self.loop_stmt(e, env)
            if e["k"] == "assign":
                return self.assign(e, env)
            if e["k"] == "break":
                raise U(e["line"], "`break` in an unsupported position (only as the last statement of a branch of the final `if` of a loop body)")
            a, t = self.tr(e, env, None)
            if isinstance(t, tuple) and t[0] == "res":
                raise U(e["line"], "unused Result")
            if t != "unit":
                raise U(e["line"], f"value of type {show_type(t)} discarded")
            return
        raise U(st["line"], f"statement kind {st['k']}")

    def assign(self, e, env):
        ln = e["line"]
        if e["op"] != "=":
            raise U(ln, f"compound assignment `{e['op']}`")
        lhs = e["lhs"]
        if lhs["k"] != "path" or len(lhs["segs"]) != 1:
            raise U(ln, "assignment to something that is not a local variable")
        name = lhs["segs"][0]
        if name not in self.assignable:
            raise U(ln, f"assignment to `{name}` from a nested block (its new value would not reach the enclosing code)")
        if name in self.uninit:
            t = self.uninit[name]
        elif name in env and name in self.mutable:
            t = env[name]
        else:
            raise U(ln, f"assignment to `{name}`, which is not a `let mut` local")
        lname = lean_ident(name)
        rhs = e["rhs"]
        if rhs["k"] in BLOCKLIKE:
            lines, at = self.captured(rhs, "val", env, t)
            self.emit_lines(wrap(f"let {lname} ← ", self.embed(rhs, lines)))
        else:
            a, at = self.tr(rhs, env, t, hint=lname)
            if a != lname:
                self.emit(f"let {lname} := {a}")
        if at != t:
            raise U(ln, f"assigned value has type {show_type(at)}, the variable has type {show_type(t)}")
        env[name] = t   # (an uninitialised `let mut x: T;` has a value from here on, in this region)

    # ------------------------------------------------------------------ loops
    @staticmethod
    def walk(node):
        if isinstance(node, dict):
            yield node
            for v in node.values():
                yield from Tr.walk(v)
        elif isinstance(node, (list, tuple)):
            for v in node:
                yield from Tr.walk(v)

    @staticmethod
    def has_break(node):
        return any(n.get("k") == "break" for n in Tr.walk(node))

    @staticmethod
    def has_return(node):
        return any(n.get("k") == "return" for n in Tr.walk(node))

    @staticmethod
    def has_exit(node):
        return any(n.get("k") in ("break", "return") for n in Tr.walk(node))

    def loop_fuel(self, e, env):
        """checks the loop header `for _ in 0..N`; returns N as a Lean term"""
        ln = e["line"]
        if e["k"] != "for":
            raise U(ln, f"`{e['k']}` loop")
        if e["pat"]["k"] != "pwild":
            raise U(ln, "loop with an index variable")
        it = e["it"]
        while it["k"] == "paren":
            it = it["e"]
        if it["k"] != "range" or it["incl"] or it["lo"] is None or it["hi"] is None:
            raise U(ln, "loop iterator is not a half-open range `0..N`")
        if not (it["lo"]["k"] == "int" and it["lo"]["v"] == 0):
            raise U(ln, "loop range does not start at the literal 0")
        if it["hi"]["k"] == "int":
            return str(it["hi"]["v"])
        fuel, ft = self.tr(it["hi"], env, None)
        if ft not in INTS or not re.fullmatch(r"[0-9]+", fuel):
            raise U(ln, "loop bound is not an integer constant")
        return fuel

    def loop_vars(self, body, rest, env, ln):
        """(state, scratch, free) of a loop: the `let mut` locals of the enclosing region the body assigns, the
        uninitialised ones it assigns, and the other names of the environment that body / rest mention"""
        assigned, declared, used = [], set(), []
        for n in self.walk(body):
            if n.get("k") == "assign":
                if n["lhs"]["k"] != "path" or len(n["lhs"]["segs"]) != 1:
                    raise U(n["line"], "assignment to something that is not a local variable")
                if n["lhs"]["segs"][0] not in assigned:
                    assigned.append(n["lhs"]["segs"][0])
            elif n.get("k") == "let" and n["pat"]["k"] == "pbind":
                declared.add(n["pat"]["name"])
        for n in self.walk([body, rest]):
            if n.get("k") == "path" and len(n["segs"]) == 1 and n["segs"][0] not in used:
                used.append(n["segs"][0])
        state, scratch = [], []
        for name in assigned:
            if name in declared:
                continue
            if name in self.uninit:
                scratch.append(name)
            elif name in env and name in self.mutable and name in self.assignable:
                state.append(name)
            else:
                raise U(ln, f"loop body assigns `{name}`, which is not an initialised `let mut` local of the enclosing block")
        if not state:
            raise U(ln, "loop without state")
        free = [n for n in env if n in used and n not in state
                and not (isinstance(env[n], tuple) and env[n][0] == "special")]
        return state, scratch, free

    def return_loop(self, e, env, rest):
        """`for _ in 0..N { body }` whose exits are `return …` from the FUNCTION, followed by the statements
        `rest` up to the end of the function: an auxiliary definition by structural recursion on the rounds left
        whose result is the function's result — a `return x` in the body is that result, falling off the end of
        the body is the recursive call, and `rest` (the code after the loop) is the case of no rounds left."""
        ln = e["line"]
        fuel = self.loop_fuel(e, env)
        body = e["body"]
        if any(n.get("k") in ("break", "for", "while", "loop") for n in self.walk(body)):
            raise U(ln, "`break` or a nested loop inside a loop with `return` exits")
        if not (isinstance(self.ret, tuple) and self.ret[0] == "res"):
            raise U(ln, "a loop with `return` exits in a function without Result/Option result")
        state, scratch, free = self.loop_vars(body, rest, env, ln)
        if scratch:
            raise U(ln, "a loop with `return` exits assigns an uninitialised local")
        self.nloops += 1
        lname = f"{self.kern['lean']}_loop{self.nloops}"
        s_lean = [lean_ident(n) for n in state]
        f_lean = [lean_ident(n) for n in free]
        s_types = [lean_type(self.ctx, env[n]) for n in state]
        cont = [" ".join([lname] + f_lean + ["fuel'"] + s_lean)]
        saved_out, self.out = self.out, []
        saved_assignable, self.assignable = self.assignable, set(state)
        saved_ret, self.loop_ret = getattr(self, "loop_ret", False), True
        try:
            tail_lines = self.loop_block(body, dict(env), cont, None)
            body_lines = self.out + tail_lines
            self.out, self.assignable = [], saved_assignable
            self.loop_ret = False
            rl, _ = self.term_of(rest, "fn", dict(env), self.ret)
            zero_lines = self.out + rl
        finally:
            self.out, self.assignable, self.loop_ret = saved_out, saved_assignable, saved_ret
        sig = " ".join(f"({n} : {lean_type(self.ctx, env[r])})" for n, r in zip(f_lean, free))
        rty = lean_type(self.ctx, self.ret[1])
        head = f"def {lname} {sig} : Nat → " + " → ".join(atom(t) for t in s_types) + f" → Res {atom(rty)}"
        d = [f"/-- the `for _ in 0..{fuel}` loop at line {ln} of `{self.kern['fn']}` (exits: `return` from the function): state",
             f"    ({', '.join(state)}); the first argument after the parameters is the number of iterations left; the result is",
             f"    the function's result, the case of no iterations left is the code after the loop -/",
             head.replace("  :", " :"),
             "  | 0, " + ", ".join(s_lean) + " => do"] + ["    " + l for l in zero_lines] + [
             "  | fuel' + 1, " + ", ".join(s_lean) + " => do"] + ["    " + l for l in body_lines]
        self.aux.append(d)
        return [" ".join([lname] + f_lean + [fuel] + s_lean)], self.ret

    def loop_stmt(self, e, env):
        """`for _ in 0..N { body }` over mutable locals -> an auxiliary definition by structural recursion on the
        iteration count (fuel).  State = the already initialised `let mut` locals of the enclosing region that the
        body assigns.  `break` is allowed only as the last statement of a branch of the body's final `if`."""
        ln = e["line"]
        if e["k"] != "for":
            raise U(ln, f"`{e['k']}` loop")
        if e["pat"]["k"] != "pwild":
            raise U(ln, "loop with an index variable")
        it = e["it"]
        while it["k"] == "paren":
            it = it["e"]
        if it["k"] != "range" or it["incl"] or it["lo"] is None or it["hi"] is None:
            raise U(ln, "loop iterator is not a half-open range `0..N`")
        if not (it["lo"]["k"] == "int" and it["lo"]["v"] == 0):
            raise U(ln, "loop range does not start at the literal 0")
        if it["hi"]["k"] == "int":
            fuel = str(it["hi"]["v"])
        else:
            fuel, ft = self.tr(it["hi"], env, None)
            if ft not in INTS:
                raise U(ln, "loop bound is not an integer constant")
        body = e["body"]
        if any(n.get("k") in ("return", "for", "while", "loop", "closure") for n in self.walk(body)):
            raise U(ln, "`return`, a nested loop or a closure inside a loop body")
        assigned, declared, used = [], set(), []
        for n in self.walk(body):
            if n.get("k") == "assign":
                if n["lhs"]["k"] != "path" or len(n["lhs"]["segs"]) != 1:
                    raise U(n["line"], "assignment to something that is not a local variable")
                if n["lhs"]["segs"][0] not in assigned:
                    assigned.append(n["lhs"]["segs"][0])
            elif n.get("k") == "let" and n["pat"]["k"] == "pbind":
                declared.add(n["pat"]["name"])
            elif n.get("k") == "path" and len(n["segs"]) == 1 and n["segs"][0] not in used:
                used.append(n["segs"][0])
        state, scratch = [], []
        for name in assigned:
            if name in declared:
                continue
            if name in self.uninit:
                scratch.append(name)
            elif name in env and name in self.mutable and name in self.assignable:
                state.append(name)
            else:
                raise U(ln, f"loop body assigns `{name}`, which is not an initialised `let mut` local of the enclosing block")
        if not state:
            raise U(ln, "loop without state")
        free = [n for n in env if n in used and n not in state
                and not (isinstance(env[n], tuple) and env[n][0] == "special")]
        self.nloops += 1
        lname = f"{self.kern['lean']}_loop{self.nloops}"
        s_lean = [lean_ident(n) for n in state]
        f_lean = [lean_ident(n) for n in free]
        s_types = [lean_type(self.ctx, env[n]) for n in state]
        result = s_lean[0] if len(state) == 1 else "(" + ", ".join(s_lean) + ")"
        cont = [" ".join([lname] + f_lean + ["fuel'"] + s_lean)]
        brk = [f"pure {result}"]
        # ---- body
        saved_out, self.out = self.out, []
        saved_assignable, self.assignable = self.assignable, set(state) | set(scratch)
        env2 = dict(env)
        try:
            tail_lines = self.loop_block(body, env2, cont, brk)
            body_lines = self.out + tail_lines
        finally:
            self.out, self.assignable = saved_out, saved_assignable
        sig = " ".join(f"({n} : {lean_type(self.ctx, env[r])})" for n, r in zip(f_lean, free))
        rty = s_types[0] if len(state) == 1 else " × ".join(atom(t) for t in s_types)
        head = f"def {lname} {sig} : Nat → " + " → ".join(atom(t) for t in s_types) + f" → Res {atom(rty)}"
        d = [f"/-- the `for _ in 0..{fuel}` loop at line {ln} of `{self.kern['fn']}`: state ({', '.join(state)}); the first",
             f"    argument after the parameters is the number of iterations left -/",
             head.replace("  :", " :"),
             "  | 0, " + ", ".join(s_lean) + f" => pure {result}",
             "  | fuel' + 1, " + ", ".join(s_lean) + " => do"] + ["    " + l for l in body_lines]
        self.aux.append(d)
        call = " ".join([lname] + f_lean + [fuel] + s_lean)
        self.emit(f"let {result} ← {call}")
        for n in scratch:
            env.pop(n, None)

    def loop_block(self, b, env, cont, brk):
        """statements of a loop body (or of a branch of its final `if`); returns the lines of the final term"""
        items = list(b["stmts"])
        if b["tail"] is not None:
            items.append(N("sexpr", b["tail"]["line"], e=b["tail"]))
        if not items:
            return cont
        for st in items[:-1]:
            if self.has_exit(st):
                raise U(st["line"], "`break` / `return` before the last statement of a block")
            self.stmt(st, env)
        last = items[-1]
        if last["k"] == "sexpr" and last["e"]["k"] == "break":
            if brk is None:
                raise U(last["line"], "`break` in a loop with `return` exits")
            return brk
        if last["k"] == "sexpr" and last["e"]["k"] == "return":
            if not getattr(self, "loop_ret", False):
                raise U(last["line"], "`return` inside a loop body")
            return self.return_term(last["e"], "fn", env)[0]
        if last["k"] == "sexpr" and self.has_exit(last):
            return self.loop_tail(last["e"], env, cont, brk)
        self.stmt(last, env)
        return cont

    def loop_tail(self, e, env, cont, brk):
        if e["k"] == "block":
            return self.loop_block(e, dict(env), cont, brk)
        if e["k"] != "if":
            raise U(e["line"], "`break` / `return` inside something that is not an `if`")
        c = self.cond(e["cond"], env)

        def branch(b):
            if b is None:
                return cont
            saved, self.out = self.out, []
            try:
                lines = self.loop_block(b, dict(env), cont, brk)
                return self.out + lines
            finally:
                self.out = saved
        tl = branch(e["then"])
        el = branch(e["els"])
        return wrap("(", [f"if {c} then do"] + indent(tl) + ["else do"] + indent(el), ")")

    # ------------------------------------------------------------------ conditions (Lean Prop)
    def cond(self, e, env):
        k = e["k"]
        if k == "paren":
            return self.cond(e["e"], env)
        if k == "un" and e["op"] == "!":
            return f"¬ {atom(self.cond(e['e'], env))}"
        if k == "bin" and e["op"] in ("&&", "||"):
            l = self.cond(e["l"], env)
            saved, self.out = self.out, []
            try:
                r = self.cond(e["r"], env)
                rl = self.out
            finally:
                self.out = saved
            if not rl:
                return f"{atom(l)} {'∧' if e['op'] == '&&' else '∨'} {atom(r)}"
            t = self.fresh()
            inner = indent(rl + [f"pure (decide {atom(r)})"])
            if e["op"] == "&&":
                lines = [f"if {l} then do"] + inner + ["else do", "  pure false"]
            else:
                lines = [f"if {l} then do", "  pure true", "else do"] + inner
            self.emit_lines(wrap(f"let {t} ← (", lines, ")"))
            return f"{t} = true"
        a, t = self.tr(e, env, "bool")
        if t != "bool":
            raise U(e["line"], f"condition has type {show_type(t)}")
        m = re.fullmatch(r"decide \((.*)\)", a, re.S)
        if m and atom("(" + m.group(1) + ")") == "(" + m.group(1) + ")":
            return m.group(1)
        if a == "true":
            return "True"
        if a == "false":
            return "False"
        return f"{atom(a)} = true"

    # ------------------------------------------------------------------ error values
    def error_value(self, e, env):
        """e must be an error constructor without effects; nothing of it reaches the Lean side"""
        k = e["k"]
        if k == "mcall" and e["name"] == "into" and not e["args"]:
            return self.error_value(e["recv"], env)
        if k == "path" and is_error_path(e["segs"]):
            return
        if k == "structlit" and is_error_path(e["segs"]):
            for _, fe in e["fields"]:
                self.pure_discard(fe, env)
            return
        if k == "call" and e["f"]["k"] == "path" and is_error_path(e["f"]["segs"]):
            for a in e["args"]:
                if a["k"] == "str":
                    continue
                self.pure_discard(a, env)
            return
        raise U(e["line"], "expression in error position is not an error constructor")

    def pure_discard(self, e, env):
        saved, self.out = self.out, []
        try:
            if e["k"] == "mcall" and e["name"] in ("to_string", "clone") and not e["args"]:
                e = e["recv"]
            self.tr(e, env, None)
            eff = self.out
        finally:
            self.out = saved
        if eff:
            raise U(e["line"], "argument of an error constructor has effects")

    def closure_error(self, c, env):
        if c["k"] != "closure":
            raise U(c["line"], "expected a closure")
        for p in c["params"]:
            if p["k"] not in ("pwild", "pbind"):
                raise U(c["line"], "closure parameter pattern")
        self.error_value(c["body"], env)

    # ------------------------------------------------------------------ SEM lookup
    def apply_row(self, row, args, hint=None):
        self.use_row(row)
        term = row["tpl"].format(*[atom(a) for a in args])
        if row["eff"] == "bind":
            t = hint or self.fresh()
            self.emit(f"let {t} ← {term}")
            return t
        return term

    def find(self, kind, name, types, line, what):
        for row in SEM:
            if row["kind"] != kind or row["name"] != name or len(row["args"]) != len(types):
                continue
            if all(type_matches(s, t, types[0] if types else None) for s, t in zip(row["args"], types)):
                return row
        raise U(line, f"no semantic-table row for {what} on ({', '.join(show_type(t) for t in types)})")

    def res_type(self, row, types):
        return types[0] if row["res"] == SAME else row["res"]

    # ------------------------------------------------------------------ expressions
    def tr(self, e, env, expected=None, hint=None):
        """-> (Lean term, type); effects are emitted into the current block in evaluation order"""
        k = e["k"]
        ln = e["line"]
        if k == "paren":
            return self.tr(e["e"], env, expected, hint)
        if k == "int":
            t = e["suffix"] or (expected if expected in INTS else None)
            if t is None:
                raise U(ln, f"cannot infer the type of the literal {e['v']}" + (f" (expected {show_type(expected)})" if expected else ""))
            if t not in INTS:
                raise U(ln, f"signed literal type {t}")
            if e["v"] > 2 ** BITS[t] - 1:
                raise U(ln, f"literal {e['v']} out of range for {t}")
            return str(e["v"]), t
        if k == "bool":
            return ("true" if e["v"] else "false"), "bool"
        if k == "unit":
            return "()", "unit"
        if k == "path":
            return self.tr_path(e, env, expected)
        if k == "un":
            if e["op"] in ("*", "&"):
                return self.tr(e["e"], env, expected, hint)
            if e["op"] == "!":
                return f"decide ({self.cond(e, env)})", "bool"
            raise U(ln, f"unary `{e['op']}`")
        if k == "bin":
            return self.tr_bin(e, env, expected, hint)
        if k == "cast":
            a, t = self.tr(e["e"], env, None)
            target = resolve_type(self.ctx, e["ty"], self.names, self.self_ty)
            if t == target:
                return a, t
            for row in SEM:
                if row["kind"] == "cast" and row["res"] == target and type_matches(row["args"][0], t):
                    return self.apply_row(row, [a]), target
            raise U(ln, f"no semantic-table row for `as` from {show_type(t)} to {show_type(target)}")
        if k == "try":
            inner = e["e"]
            while inner["k"] == "paren":
                inner = inner["e"]
            if inner["k"] == "mcall" and inner["name"] == "try_fold":
                return self.tr_try_fold(inner, env, hint)
            want = ("res", expected) if expected is not None else None
            a, t = self.tr(e["e"], env, want)
            if isinstance(t, tuple) and t[0] == "res":
                if not (isinstance(self.ret, tuple) and self.ret[0] == "res"):
                    raise U(ln, "`?` in a function without Result/Option result")
                v = hint or self.fresh()
                self.emit(f"let {v} ← {a}")
                return v, t[1]
            if isinstance(t, tuple) and t[0] == "opt":
                if not self.ret_is_option:
                    raise U(ln, "`?` on an Option in a function that does not return Option")
                v = hint or self.fresh()
                self.emit(f"let {v} ← optErr {atom(a)}")
                return v, t[1]
            raise U(ln, f"`?` on a value of type {show_type(t)}")
        if k == "field":
            a, t = self.tr(e["recv"], env, None)
            if not (isinstance(t, tuple) and t[0] == "struct"):
                raise U(ln, f"field access on {show_type(t)}")
            _, fields, _ = self.ctx.typedef(t[1])
            for fname, fty in fields:
                if fname == e["name"]:
                    if fty is None:
                        raise U(ln, f"field `{fname}` has a type outside the translator's type table")
                    return f"{atom(a)}.{lean_ident(fname)}", fty
            raise U(ln, f"unknown field `{e['name']}`")
        if k == "index":
            a, t = self.tr(e["recv"], env, None)
            if not (isinstance(t, tuple) and t[0] == "array"):
                raise U(ln, f"indexing a value of type {show_type(t)}")
            if e["idx"]["k"] != "int" or e["idx"]["suffix"] not in (None, "usize"):
                raise U(ln, "index is not an integer literal")
            i, n = e["idx"]["v"], t[2]
            if i >= n:
                raise U(ln, "index out of range")
            proj = ".2" * i + (".1" if i < n - 1 else "")
            return (f"{atom(a)}{proj}" if n > 1 else a), t[1]
        if k == "array":
            et = expected[1] if isinstance(expected, tuple) and expected[0] == "array" else None
            if isinstance(expected, tuple) and expected[0] == "array" and expected[2] != len(e["elems"]):
                raise U(ln, "array length differs from the annotation")
            if not e["elems"]:
                raise U(ln, "empty array")
            items = []
            for x in e["elems"]:
                a, t = self.tr(x, env, et)
                if isinstance(t, tuple) and t[0] == "res":
                    raise U(ln, "Result value in an array")
                if et is None:
                    et = t
                if t != et:
                    raise U(ln, "array elements of different types")
                items.append(a)
            return ("(" + ", ".join(items) + ")" if len(items) > 1 else items[0]), ("array", et, len(items))
        if k == "structlit":
            if is_error_path(e["segs"]):
                self.error_value(e, env)
                return "ERR", "err"
            name = e["segs"][-1]
            if e["segs"] == ["Self"] and isinstance(self.self_ty, tuple) and self.self_ty[0] == "struct":
                key = self.self_ty[1]   # `Self { .. }` inside an inherent impl of a struct of the type table
            elif len(e["segs"]) != 1 or name not in self.names:
                raise U(ln, f"struct literal of `{'::'.join(e['segs'])}`")
            else:
                key = self.names[name]
            kind, fields, _ = self.ctx.typedef(key)
            if kind != "struct":
                raise U(ln, "literal of an enum struct-variant")
            ftypes = dict(fields)
            if any(v is None for v in ftypes.values()):
                raise U(ln, "struct has fields outside the translator's type table")
            given = []
            for fname, fe in e["fields"]:
                if fname not in ftypes:
                    raise U(ln, f"unknown field `{fname}`")
                a, t = self.tr(fe, env, ftypes[fname])
                if t != ftypes[fname]:
                    raise U(fe["line"], f"field `{fname}` has type {show_type(t)}, expected {show_type(ftypes[fname])}")
                given.append((fname, a))
            if sorted(n for n, _ in given) != sorted(ftypes):
                raise U(ln, "struct literal does not give every field exactly once")
            body = ", ".join(f"{lean_ident(n)} := {a}" for n, a in given)
            return f"({{ {body} }} : {self.ctx.types[key]['lean']})", ("struct", key)
        if k == "call":
            return self.tr_call(e, env, expected, hint)
        if k == "mcall":
            return self.tr_mcall(e, env, expected, hint)
        if k in BLOCKLIKE:
            if k in ("for", "while", "loop"):
                raise U(ln, "loop in expression position")
            lines, t = self.captured(e, "val", env, expected)
            v = hint or self.fresh()
            self.emit_lines(wrap(f"let {v} ← ", self.embed(e, lines)))
            return v, t
        raise U(ln, f"expression kind `{k}` is not supported here")

    def tr_try_fold(self, e, env, hint):
        """`[x1, .., xn].into_iter().try_fold(init, |acc, x| body)?` over a LITERAL array: the closure body is
        unrolled over the elements in order, threading the accumulator.  core::iter::Iterator::try_fold stops at
        the first `Err` the closure returns and returns it; the `?` that follows returns it from the function;
        a `?` inside the closure returns `Err` from the closure — all three are `Res.err` reaching the function
        result through bind.  Each round is its own nested `do` block (the closure's locals do not escape)."""
        ln = e["line"]
        if not (isinstance(self.ret, tuple) and self.ret[0] == "res") or self.ret_is_option:
            raise U(ln, "`try_fold(..)?` in a function that does not return Result")
        recv = e["recv"]
        while recv["k"] == "paren":
            recv = recv["e"]
        if not (recv["k"] == "mcall" and recv["name"] == "into_iter" and not recv["args"] and recv["turbofish"] is None):
            raise U(ln, "try_fold on something that is not `[..].into_iter()`")
        arr = recv["recv"]
        while arr["k"] == "paren":
            arr = arr["e"]
        if arr["k"] != "array" or not arr["elems"]:
            raise U(ln, "try_fold over something that is not a non-empty array literal")
        if len(e["args"]) != 2 or e["args"][1]["k"] != "closure":
            raise U(ln, "try_fold arguments are not (init, closure)")
        clo = e["args"][1]
        if len(clo["params"]) != 2 or any(p["k"] != "pbind" or p["mut"] for p in clo["params"]):
            raise U(ln, "try_fold closure parameters are not two plain names")
        if clo["body"]["k"] != "block":
            raise U(ln, "try_fold closure body is not a block")
        if any(n.get("k") in ("return", "break", "for", "while", "loop", "closure") for n in self.walk(clo["body"])):
            raise U(ln, "`return`, `break`, a loop or a closure inside the try_fold closure")
        elems, et = [], None
        for x in arr["elems"]:
            a, t = self.tr(x, env, et)
            if isinstance(t, tuple) and t[0] == "res":
                raise U(ln, "Result value in an array")
            if et is not None and t != et:
                raise U(ln, "array elements of different types")
            et = t
            elems.append(a)
        acc, at = self.tr(e["args"][0], env, None)
        if isinstance(at, tuple) and at[0] in ("res", "opt"):
            raise U(ln, "try_fold accumulator is a Result/Option")
        if e["turbofish"] is not None:
            # only `::<_, _, Result<_ | B, E>>` (it names what is inferred anyway)
            tf = e["turbofish"]
            ok = len(tf) == 3 and all(t["k"] == "tpath" for t in tf) and tf[0]["segs"] == ["_"] and tf[1]["segs"] == ["_"] \
                and tf[2]["segs"][-1] == "Result" and len(tf[2]["args"]) == 2
            if ok and tf[2]["args"][0].get("segs") != ["_"]:
                ok = resolve_type(self.ctx, tf[2]["args"][0], self.names, self.self_ty) == at
            if not ok:
                raise U(ln, "turbofish of try_fold is not `::<_, _, Result<_, E>>`")
        an, xn = clo["params"][0]["name"], clo["params"][1]["name"]
        if an == xn:
            raise U(ln, "try_fold closure parameters have the same name")
        for i, x in enumerate(elems):
            if re.search(r"(?<![A-Za-z0-9_'])" + re.escape(lean_ident(an)) + r"(?![A-Za-z0-9_'])", x):
                raise U(ln, "the accumulator parameter's name occurs in an array element")
            saved, self.out = self.out, []
            saved_assignable, self.assignable = self.assignable, set()
            saved_mut = set(self.mutable)
            try:
                env2 = dict(env)
                env2[an], env2[xn] = at, et
                self.mutable -= {an, xn}
                if acc != lean_ident(an):
                    self.emit(f"let {lean_ident(an)} := {acc}")
                if x != lean_ident(xn):
                    self.emit(f"let {lean_ident(xn)} := {x}")
                for st in clo["body"]["stmts"]:
                    self.stmt(st, env2)
                if clo["body"]["tail"] is None:
                    raise U(ln, "try_fold closure has no tail expression")
                ta, tt = self.tr(clo["body"]["tail"], env2, ("res", at))
                if not (isinstance(tt, tuple) and tt[0] == "res" and self.compatible(tt, ("res", at))):
                    raise U(ln, f"try_fold closure yields {show_type(tt)}, expected a Result of {show_type(at)}")
                lines = self.out + [ta]
            finally:
                self.out, self.assignable, self.mutable = saved, saved_assignable, saved_mut
            v = hint if (hint and i == len(elems) - 1) else self.fresh()
            self.emit_lines(wrap(f"let {v} ← (", ["do"] + indent(lines), ")"))
            acc = v
        return acc, at

    def tr_path(self, e, env, expected):
        segs, ln = e["segs"], e["line"]
        if len(segs) == 1:
            name = segs[0]
            if name in env:
                t = env[name]
                if isinstance(t, tuple) and t[0] == "special":
                    raise U(ln, f"specialised parameter `{name}` used outside a `match`")
                return lean_ident(name), t
            if name == "None":
                if isinstance(expected, tuple) and expected[0] == "opt":
                    return "none", expected
                if isinstance(expected, tuple) and expected[0] == "res" and self.ret_is_option:
                    return "Res.err", ("res", NEVER)
                raise U(ln, "`None` without a known Option type")
            if name in self.file.consts:
                return self.tr_const(name, ln)
            raise U(ln, f"unknown name `{name}`")
        if is_error_path(segs):
            return "ERR", "err"
        if len(segs) == 2 and segs[0] in self.names:
            key = self.names[segs[0]]
            kind, variants, _ = self.ctx.typedef(key)
            if kind == "enum":
                for vn, vf in variants:
                    if vn == segs[1] and vf is None:
                        return f"{self.ctx.types[key]['lean']}.{vn}", ("enum", key)
        raise U(ln, f"path `{'::'.join(segs)}` is not understood")

    def tr_const(self, name, ln):
        c = self.file.unique(self.file.consts, name, "const")
        if c["impl"] is not None:
            raise U(ln, "associated const")
        ps = Parser(self.file.toks, c["ty"])
        ty = ps.ty()
        ps.expect("=")
        init = ps.expr(0, False)
        ps.expect(";")
        t = resolve_type(self.ctx, ty, self.names, None)
        if t == "str":
            if init["k"] != "str":
                raise U(c["line"], "&str const is not a literal")
            return init["v"], "str"
        saved, self.out = self.out, []
        try:
            a, at = self.tr(init, {}, t)
            eff = self.out
        finally:
            self.out = saved
        if eff:
            raise U(c["line"], f"initialiser of const `{name}` has effects")
        if at != t:
            raise U(c["line"], f"const `{name}`: initialiser has type {show_type(at)}")
        self.notes.append(f"const `{name}` (line {c['line']}) inlined")
        return a, t

    def tr_bin(self, e, env, expected, hint):
        op, ln = e["op"], e["line"]
        if op in ("&&", "||"):
            return f"decide ({self.cond(e, env)})", "bool"
        l, r = e["l"], e["r"]

        def bare_lit(x):
            while x["k"] == "paren":
                x = x["e"]
            return x["k"] == "int" and x["suffix"] is None
        arith = op in ("+", "-", "*", "/", "%")
        if bare_lit(l) and not bare_lit(r):
            ra, rt = self.tr(r, env, None)
            la, lt = self.tr(l, env, rt)
        else:
            la, lt = self.tr(l, env, expected if arith and expected in INTS else None)
            ra, rt = self.tr(r, env, lt if bare_lit(r) else None)
        row = self.find("bin", op, (lt, rt), ln, f"operator `{op}`")
        return self.apply_row(row, [la, ra], hint), self.res_type(row, (lt, rt))

    def conv(self, name, a, src, dst, ln):
        if name == "into" and src == dst:
            return a
        for row in SEM:
            if row["kind"] == "conv" and row["name"] == name and row["res"] == dst and type_matches(row["args"][0], src):
                return self.apply_row(row, [a])
        raise U(ln, f"no semantic-table row for `{name}` from {show_type(src)} to {show_type(dst)}")

    def call_kernel(self, callee, args, ln, hint):
        """args: [(term, type)] incl. the receiver"""
        want = callee["_params"]
        if len(want) != len(args):
            raise U(ln, f"call of `{callee['lean']}` with {len(args)} arguments, expected {len(want)}")
        args = list(args)
        for i, ((a, t), (pn, pt)) in enumerate(zip(args, want)):
            if t != pt and pn in callee.get("_into", ()):
                args[i] = (self.conv("into", a, t, pt, ln), pt)   # `impl Into<T>` parameter
            elif t != pt:
                raise U(ln, f"argument `{pn}` of `{callee['lean']}` has type {show_type(t)}, expected {show_type(pt)}")
        if callee["lean"] not in self.calls:
            self.calls.append(callee["lean"])
        term = callee["lean"] + "".join(" " + atom(a) for a, _ in args)
        if isinstance(callee["_ret"], tuple) and callee["_ret"][0] == "res":
            return term, callee["_ret"]
        v = hint or self.fresh()
        self.emit(f"let {v} ← {term}")
        return v, callee["_ret"]

    def find_kernel(self, impl_key, fn_name):
        for kk in self.ctx.kernels:
            if kk["fn"] != fn_name or "specialize" in kk or "fragment" in kk:
                continue
            if impl_key is None:
                if kk.get("impl") is None and kk["file"] == self.kern["file"]:
                    return kk
            elif kk.get("impl") and kk.get("types", {}).get(kk["impl"]) == impl_key:
                return kk
        return None

    def find_trait_kernel(self, ty, fn_name):
        """a kernel `impl Trait for <ty>` (extension trait of the contract on a cosmwasm type).  Looked up only
        after SEM has no row for that name on that type: an inherent method would win in Rust as well."""
        if not isinstance(ty, str):
            return None
        for kk in self.ctx.kernels:
            if kk["fn"] == fn_name and kk.get("impl", "") and kk["impl"].endswith(" for " + ty):
                return kk
        return None

    def need_translated(self, kk, ln):
        if "_params" not in kk:
            raise U(ln, f"callee `{kk['lean']}` is not available (it failed to translate or comes later in the kernel list)")
        return kk

    def tr_call(self, e, env, expected, hint):
        ln = e["line"]
        f = e["f"]
        if f["k"] != "path":
            raise U(ln, "call of a computed function")
        segs, args = f["segs"], e["args"]
        name = "::".join(segs)
        if name in ("Some", "Ok"):
            if len(args) != 1:
                raise U(ln, f"{name}(..) with {len(args)} arguments")
            inner = expected[1] if isinstance(expected, tuple) and expected[0] in ("opt", "res") else None
            a, t = self.tr(args[0], env, inner)
            if isinstance(t, tuple) and t[0] == "res":
                raise U(ln, f"{name}(..) of a Result/Option computation")
            if name == "Some" and not (isinstance(expected, tuple) and expected[0] == "res" and self.ret_is_option):
                return f"some {atom(a)}", ("opt", t)
            if name == "Ok" and self.ret_is_option:
                raise U(ln, "Ok(..) in a function returning Option")
            return f"Res.ok {atom(a)}", ("res", t)
        if name == "Err":
            if len(args) != 1:
                raise U(ln, "Err(..) with several arguments")
            self.error_value(args[0], env)
            return "Res.err", ("res", NEVER)
        if is_error_path(segs):
            self.error_value(e, env)
            return "ERR", "err"
        if len(segs) == 2 and segs[1] in ("from", "try_from") and len(args) == 1:
            target = resolve_type(self.ctx, N("tpath", ln, segs=[segs[0]], args=[]), self.names, self.self_ty)
            a, t = self.tr(args[0], env, None)
            if segs[1] == "from":
                return self.conv("into", a, t, target, ln), target
            return self.conv("try_into", a, t, target, ln), ("res", target)
        if len(segs) == 2 and segs[1] == "from_str" and segs[0] in ("Decimal", "Decimal256") and len(args) == 1:
            a, t = self.tr(args[0], env, "str") if args[0]["k"] == "path" else (args[0].get("v"), "str" if args[0]["k"] == "str" else None)
            if t != "str":
                raise U(ln, "from_str of something that is not a string constant")
            return f"Res.ok {parse_decimal_str(a, ln)}", ("res", segs[0])
        if len(segs) == 2:
            cands = [r for r in SEM if r["kind"] == "f" and r["name"] == name and len(r["args"]) == len(args)]
            if cands:
                row = cands[0]
                vals = []
                for x, spec in zip(args, row["args"]):
                    vals.append(self.tr(x, env, spec if isinstance(spec, str) and spec != SAME else None))
                types = tuple(t for _, t in vals)
                row = self.find("f", name, types, ln, f"`{name}`")
                return self.apply_row(row, [a for a, _ in vals], hint), self.res_type(row, types)
            # associated function of a kernel type
            if segs[0] in self.names or segs[0] == "Self":
                key = self.self_ty[1] if segs[0] == "Self" else self.names[segs[0]]
                kk = self.find_kernel(key, segs[1])
                if kk is not None:
                    kk = self.need_translated(kk, ln)
                    vals = [self.tr(x, env, pt) for x, (_, pt) in zip(args, kk["_params"])]
                    return self.call_kernel(kk, vals, ln, hint)
            if segs[0] in NUMERIC and not any(r["kind"] == "f" and r["name"] == name for r in SEM):
                kk = self.find_trait_kernel(segs[0], segs[1])
                if kk is not None:
                    kk = self.need_translated(kk, ln)
                    if len(args) != len(kk["_params"]):
                        raise U(ln, "wrong number of arguments")
                    vals = [self.tr(x, env, pt if pn not in kk.get("_into", ()) else None)
                            for x, (pn, pt) in zip(args, kk["_params"])]
                    return self.call_kernel(kk, vals, ln, hint)
            raise U(ln, f"no semantic-table row for `{name}` with {len(args)} argument(s)")
        if len(segs) == 1:
            kk = self.find_kernel(None, segs[0])
            if kk is not None:
                kk = self.need_translated(kk, ln)
                vals = [self.tr(x, env, pt) for x, (_, pt) in zip(args, kk["_params"])]
                return self.call_kernel(kk, vals, ln, hint)
            raise U(ln, f"call of `{name}`, which is not in the kernel list")
        raise U(ln, f"call of `{name}` is not understood")

    def tr_mcall(self, e, env, expected, hint):
        ln, name, args, recv = e["line"], e["name"], e["args"], e["recv"]
        if e["turbofish"] is not None:
            raise U(ln, "turbofish on a method call")
        # (a..=b).contains(&x)
        r0 = recv
        while r0["k"] == "paren":
            r0 = r0["e"]
        if name == "contains" and r0["k"] == "range" and len(args) == 1:
            if r0["lo"] is None or r0["hi"] is None:
                raise U(ln, "open range")
            xa, xt = self.tr(args[0], env, None)
            if xt not in INTS:
                raise U(ln, f"range test on {show_type(xt)}")
            lo, lt = self.tr(r0["lo"], env, xt)
            hi, ht = self.tr(r0["hi"], env, xt)
            if lt != xt or ht != xt:
                raise U(ln, "range bounds and tested value have different types")
            up = "≤" if r0["incl"] else "<"
            return f"decide ({atom(lo)} ≤ {atom(xa)} ∧ {atom(xa)} {up} {atom(hi)})", "bool"
        if name in ("unwrap", "expect"):
            if name == "expect" and not (len(args) == 1 and args[0]["k"] == "str"):
                raise U(ln, "expect(..) with a non-literal message")
            if name == "unwrap" and args:
                raise U(ln, "unwrap with arguments")
            a, t = self.tr(recv, env, ("res", expected) if expected is not None else None)
            v = hint or self.fresh()
            if isinstance(t, tuple) and t[0] == "res":
                self.emit(f"let {v} ← unwrapPanic {atom(a)}")
                return v, t[1]
            if isinstance(t, tuple) and t[0] == "opt":
                self.emit(f"let {v} ← optPanic {atom(a)}")
                return v, t[1]
            raise U(ln, f"unwrap on {show_type(t)}")
        if name == "map_err" and len(args) == 1:
            a, t = self.tr(recv, env, expected)
            if not (isinstance(t, tuple) and t[0] == "res"):
                raise U(ln, f"map_err on {show_type(t)}")
            self.closure_error(args[0], env)
            return a, t
        if name in ("ok_or_else", "ok_or") and len(args) == 1:
            want = ("opt", expected[1]) if isinstance(expected, tuple) and expected[0] == "res" else None
            a, t = self.tr(recv, env, want)
            if not (isinstance(t, tuple) and t[0] == "opt"):
                raise U(ln, f"{name} on {show_type(t)}")
            if name == "ok_or_else":
                self.closure_error(args[0], env)
            else:
                self.error_value(args[0], env)
            return f"optErr {atom(a)}", ("res", t[1])
        if name == "unwrap_or" and len(args) == 1:
            a, t = self.tr(recv, env, ("opt", expected) if expected is not None else None)
            if not (isinstance(t, tuple) and t[0] == "opt"):
                raise U(ln, f"unwrap_or on {show_type(t)}")
            d, dt = self.tr(args[0], env, t[1])
            if dt != t[1]:
                raise U(ln, "unwrap_or default has another type")
            return f"Option.getD {atom(a)} {atom(d)}", t[1]
        if name == "clone" and not args:
            return self.tr(recv, env, expected, hint)
        if name == "into" and not args:
            a, t = self.tr(recv, env, None)
            if t == "err":
                return a, t
            if expected is None:
                raise U(ln, "target type of `.into()` is not known from the context")
            return self.conv("into", a, t, expected, ln), expected
        if name == "try_into" and not args:
            a, t = self.tr(recv, env, None)
            if not (isinstance(expected, tuple) and expected[0] == "res" and expected[1] not in (None, NEVER)):
                raise U(ln, "target type of `.try_into()` is not known from the context")
            return self.conv("try_into", a, t, expected[1], ln), expected
        # ordinary method: receiver, then arguments, left to right
        ra, rt = self.tr(recv, env, None)
        if isinstance(rt, tuple) and rt[0] == "struct":
            kk = self.find_kernel(rt[1], name)
            if kk is None:
                raise U(ln, f"method `{name}` of `{self.ctx.types[rt[1]]['rust']}` is not in the kernel list")
            kk = self.need_translated(kk, ln)
            vals = [(ra, rt)] + [self.tr(x, env, pt) for x, (_, pt) in zip(args, kk["_params"][1:])]
            if len(vals) != len(kk["_params"]):
                raise U(ln, "wrong number of arguments")
            return self.call_kernel(kk, vals, ln, hint)
        cands = [r for r in SEM if r["kind"] == "m" and r["name"] == name and len(r["args"]) == len(args) + 1
                 and type_matches(r["args"][0], rt)]
        if not cands and not any(r["kind"] == "m" and r["name"] == name and type_matches(r["args"][0], rt) for r in SEM):
            kk = self.find_trait_kernel(rt, name)
            if kk is not None:
                kk = self.need_translated(kk, ln)
                if not kk["_params"] or kk["_params"][0][0] != "self" or len(args) + 1 != len(kk["_params"]):
                    raise U(ln, "wrong number of arguments / not a method")
                vals = [(ra, rt)] + [self.tr(x, env, pt if pn not in kk.get("_into", ()) else None)
                                     for x, (pn, pt) in zip(args, kk["_params"][1:])]
                return self.call_kernel(kk, vals, ln, hint)
        if not cands:
            raise U(ln, f"no semantic-table row for method `{name}` on {show_type(rt)} with {len(args)} argument(s)")
        vals = [(ra, rt)]
        for i, x in enumerate(args):
            specs = {(rt if r["args"][i + 1] == SAME else r["args"][i + 1]) for r in cands}
            spec = specs.pop() if len(specs) == 1 else None
            vals.append(self.tr(x, env, spec if isinstance(spec, str) else None))
        types = tuple(t for _, t in vals)
        for (a, t) in vals[1:]:
            if isinstance(t, tuple) and t[0] == "res":
                raise U(ln, "Result value passed as an argument")
        row = self.find("m", name, types, ln, f"method `{name}`")
        return self.apply_row(row, [a for a, _ in vals], hint), self.res_type(row, types)


# ---- addition: early `return <value>` (structural rule, see STRUCTURAL) -----------------------------------------
# `{ s1; …; if c { t…; return v; } r1; …; tail }` in the position of the function's result, where `v` is not an
# error (`return Err(..)` / `return None` keep their existing rule: `Res.err` inside the statement):
#     s1; …; (if c then do t…; ⟦v⟧ else do r1; …; ⟦tail⟧)
# i.e. the rest of the block is the `else` branch.  Only in mode 'fn' (the block's value IS the function's
# result), only for an `if` without `else` whose last statement is the `return`.
STRUCTURAL += [
    ("if c { …; return v; } rest   (v not an error, block in result position)",
     "`if c then do …; ⟦v⟧ else do ⟦rest⟧`: the statements after the `if` are evaluated only when c is false"),
]


def _is_error_return(r):
    if r is None:
        return False
    if r["k"] == "call" and r["f"]["k"] == "path" and r["f"]["segs"] == ["Err"]:
        return True
    return r["k"] == "path" and r["segs"] == ["None"]


def _early_value_return(st):
    if st["k"] != "sexpr" or st["e"]["k"] != "if" or st["e"]["els"] is not None:
        return False
    then = st["e"]["then"]
    if then["tail"] is not None or not then["stmts"]:
        return False
    last = then["stmts"][-1]
    return last["k"] == "sexpr" and last["e"]["k"] == "return" and last["e"]["e"] is not None \
        and not _is_error_return(last["e"]["e"])


_block_term_base = Tr.block_term


def _block_term_early_return(self, b, mode, env, expected):
    if mode == "fn":
        for i, st in enumerate(b["stmts"]):
            if st["k"] == "sexpr" and st["e"]["k"] == "return":
                break       # the existing rule decides (it rejects statements after a `return`)
            if _early_value_return(st):
                for st0 in b["stmts"][:i]:
                    self.stmt(st0, env)
                ife = st["e"]
                c = self.cond(ife["cond"], env)
                tl, tt = self.captured(ife["then"], "fn", env, expected)
                rest = N("block", st["line"], stmts=b["stmts"][i + 1:], tail=b["tail"])
                el, et = self.captured(rest, "fn", env, expected)
                ty = self.join(tt, et, st["line"])
                return wrap("(", [f"if {c} then do"] + indent(tl) + ["else do"] + indent(el), ")"), ty
    return _block_term_base(self, b, mode, env, expected)


Tr.block_term = _block_term_early_return


# ---- addition: `.ok_or(..)` / `.ok_or_else(..)` on the Option of a primitive `checked_*` operation ---------------
# (`u64::checked_sub(..)` … have SEM rows whose result is already a `Res` with None = `err`; turning that None into
# an `Err(x)` changes nothing on the Lean side.  The receiver must syntactically be a `checked_*` method call and
# must translate to a `Res`; x must be an error constructor.)
_tr_mcall_base = Tr.tr_mcall


def _tr_mcall_ok_or_on_checked(self, e, env, expected, hint):
    if e["name"] in ("ok_or", "ok_or_else") and len(e["args"]) == 1 and e["turbofish"] is None:
        r0 = e["recv"]
        while r0["k"] == "paren":
            r0 = r0["e"]
        if r0["k"] == "mcall" and r0["name"].startswith("checked_"):
            a, t = self.tr(r0, env, expected)
            if not (isinstance(t, tuple) and t[0] == "res"):
                raise U(e["line"], f"{e['name']} on {show_type(t)}")
            if e["name"] == "ok_or_else":
                self.closure_error(e["args"][0], env)
            else:
                self.error_value(e["args"][0], env)
            return a, t
    return _tr_mcall_base(self, e, env, expected, hint)


Tr.tr_mcall = _tr_mcall_ok_or_on_checked


# ======================================================================================= kernel and type tables
FEE_RS = STD + "fee.rs"
PAIR_RS = STD + "pool_network/pair.rs"
TRIO_RS = STD + "pool_network/trio.rs"
ASSET_RS = STD + "pool_network/asset.rs"
SWAP_RS = STD + "pool_network/swap.rs"
PAIR_HELPERS = PN + "terraswap_pair/src/helpers.rs"
TRIO_HELPERS = PN + "stableswap_3pool/src/helpers.rs"
CURVE_RS = PN + "stableswap_3pool/src/stableswap_math/curve.rs"
WEIGHT_RS = PN + "incentive/src/weight.rs"
PAIR_MATH = PN + "terraswap_pair/src/math.rs"

# key -> Rust type, file that defines it, Lean name (in namespace WW.Gen.K), names of the types of its fields
TYPES = {
    "Fee": dict(rust="Fee", file=FEE_RS, lean="Fee"),
    "VaultFee": dict(rust="VaultFee", file=FEE_RS, lean="VaultFee", names={"Fee": "Fee"}),
    "PoolFee": dict(rust="PoolFee", file=PAIR_RS, lean="PoolFee", names={"Fee": "Fee"}),
    "TrioPoolFee": dict(rust="PoolFee", file=TRIO_RS, lean="TrioPoolFee", names={"Fee": "Fee"}),
    "PairType": dict(rust="PairType", file=ASSET_RS, lean="PairType"),
    "Asset": dict(rust="Asset", file=ASSET_RS, lean="Asset"),
    "TrioAsset": dict(rust="Asset", file=ASSET_RS, lean="Asset"),
    "SwapComputation": dict(rust="SwapComputation", file=PAIR_HELPERS, lean="SwapComputation"),
    "StableSwap": dict(rust="StableSwap", file=CURVE_RS, lean="StableSwap"),
    "SwapResult": dict(rust="SwapResult", file=CURVE_RS, lean="SwapResult"),
    "TrioSwapComputation": dict(rust="SwapComputation", file=TRIO_HELPERS, lean="TrioSwapComputation"),
    "StableSwapDirection": dict(rust="StableSwapDirection", file=PAIR_HELPERS, lean="StableSwapDirection"),
}
del TYPES["TrioAsset"]

# lean: name of the generated def;  file / impl / fn: where the Rust is;  types: Rust type name -> TYPES key;
# specialize: {parameter: enum variant} (only that `match` arm is translated, the parameter is dropped);
# props: the properties whose obligations include the equivalence theorem;  model / theorem / module: the
# hand-written model function the definition is proved equal to, and where that theorem lives (also: further
# theorem modules that state something about the same definition).
# Order matters: a kernel may call only kernels listed before it.
KERNELS = [
    dict(lean="Fee_compute", file=FEE_RS, impl="Fee", fn="compute", types={"Fee": "Fee"},
         props=["C02"], model="WW.feeOf", theorem="WW.KernelsCpSwap.gen_Fee_compute_eq_model", module="WW.Props.Kernels.CpSwap"),
    dict(lean="Fee_is_valid", file=FEE_RS, impl="Fee", fn="is_valid", types={"Fee": "Fee"},
         props=["C18", "C02"], model="WW.Config.feeIsValid", theorem="WW.KernelsFees.gen_Fee_is_valid_eq_model", module="WW.Props.Kernels.Fees"),
    dict(lean="VaultFee_is_valid", file=FEE_RS, impl="VaultFee", fn="is_valid", types={"Fee": "Fee", "VaultFee": "VaultFee"},
         props=["C18"], model="WW.Config.fees3IsValid", theorem="WW.KernelsFeesOther.gen_VaultFee_is_valid_eq_model", module="WW.Props.Kernels.FeesOther"),
    dict(lean="PoolFee_aggregate", file=PAIR_RS, impl="PoolFee", fn="aggregate", types={"Fee": "Fee", "PoolFee": "PoolFee"},
         props=["C18", "C02"], model="(part of WW.Config.fees3IsValid)", theorem="WW.KernelsFees.gen_PoolFee_is_valid_eq_model", module="WW.Props.Kernels.Fees"),
    dict(lean="PoolFee_is_valid", file=PAIR_RS, impl="PoolFee", fn="is_valid", types={"Fee": "Fee", "PoolFee": "PoolFee"},
         props=["C18", "C02"], model="WW.Config.fees3IsValid / WW.Fees.valid", theorem="WW.KernelsFees.gen_PoolFee_is_valid_eq_model", module="WW.Props.Kernels.Fees"),
    dict(lean="TrioPoolFee_aggregate", file=TRIO_RS, impl="PoolFee", fn="aggregate", types={"Fee": "Fee", "PoolFee": "TrioPoolFee"},
         props=["C18"], model="(part of WW.Config.fees3IsValid)", theorem="WW.KernelsFeesOther.gen_TrioPoolFee_is_valid_eq_model", module="WW.Props.Kernels.FeesOther"),
    dict(lean="TrioPoolFee_is_valid", file=TRIO_RS, impl="PoolFee", fn="is_valid", types={"Fee": "Fee", "PoolFee": "TrioPoolFee"},
         props=["C18"], model="WW.Config.fees3IsValid", theorem="WW.KernelsFeesOther.gen_TrioPoolFee_is_valid_eq_model", module="WW.Props.Kernels.FeesOther"),
    dict(lean="calculate_weight", file=WEIGHT_RS, fn="calculate_weight",
         props=["C13"], model="WW.calcWeight", theorem="WW.KernelsWeight.gen_calculate_weight_eq_model", module="WW.Props.Kernels.Weight"),
    dict(lean="compute_swap_ConstantProduct", file=PAIR_HELPERS, fn="compute_swap",
         types={"PoolFee": "PoolFee", "Fee": "Fee", "PairType": "PairType", "SwapComputation": "SwapComputation"},
         specialize={"swap_type": "PairType::ConstantProduct"},
         props=["C02"], model="WW.cpSwap", theorem="WW.KernelsCpSwap.gen_compute_swap_ConstantProduct_eq_model", module="WW.Props.Kernels.CpSwap"),
    dict(lean="assert_max_spread", file=SWAP_RS, fn="assert_max_spread",
         props=["C15", "C04"], model="WW.assertMaxSpread / WW.Trio.assertMaxSpread", theorem="WW.KernelsSlippage.gen_assert_max_spread_eq_model",
         module="WW.Props.Kernels.Slippage", also=["WW.Props.Kernels.TrioSlippage"]),
    dict(lean="pair_assert_slippage_tolerance", file=PAIR_HELPERS, fn="assert_slippage_tolerance",
         types={"PairType": "PairType", "Asset": "Asset"},
         props=["C15"], model="WW.pairAssertSlippage", theorem="WW.KernelsSlippage.gen_pair_assert_slippage_tolerance_eq_model", module="WW.Props.Kernels.Slippage"),
    dict(lean="trio_assert_slippage_tolerance", file=TRIO_HELPERS, fn="assert_slippage_tolerance",
         types={"Asset": "Asset"},
         props=["C15", "C04"], model="WW.trioAssertSlippage / WW.Trio.assertSlippage", theorem="WW.KernelsSlippage.gen_trio_assert_slippage_tolerance_eq_model",
         module="WW.Props.Kernels.Slippage", also=["WW.Props.Kernels.TrioSlippage"]),
    dict(lean="compute_amp_factor", file=CURVE_RS, impl="StableSwap", fn="compute_amp_factor", types={"StableSwap": "StableSwap"},
         props=["C04", "C18"], model="WW.Trio.ampFactor", theorem="WW.KernelsAmp.gen_compute_amp_factor_eq_model", module="WW.Props.Kernels.Amp"),
    dict(lean="pair_compute_next_d", file=PAIR_HELPERS, fn="compute_next_d",
         props=["C03"], model="WW.computeNextD", theorem="WW.KernelsStable2.gen_pair_compute_next_d_eq_model", module="WW.Props.Kernels.Stable2"),
    dict(lean="pair_compute_d", file=PAIR_HELPERS, fn="compute_d",
         props=["C03"], model="WW.computeD", theorem="WW.KernelsStable2.gen_pair_compute_d_eq_model", module="WW.Props.Kernels.Stable2"),
    dict(lean="pair_compute_lp_mint_amount_for_stableswap_deposit", file=PAIR_HELPERS, fn="compute_lp_mint_amount_for_stableswap_deposit",
         props=["C03"], model="WW.ssLpMint", theorem="WW.KernelsStable2.gen_pair_compute_lp_mint_eq_model", module="WW.Props.Kernels.Stable2"),
    dict(lean="trio_compute_next_d", file=CURVE_RS, impl="StableSwap", fn="compute_next_d", types={"StableSwap": "StableSwap"},
         props=["C04"], model="WW.Trio.nextD", theorem="WW.KernelsCurve.gen_trio_compute_next_d_eq_model", module="WW.Props.Kernels.Curve"),
    dict(lean="trio_compute_d", file=CURVE_RS, impl="StableSwap", fn="compute_d", types={"StableSwap": "StableSwap"},
         props=["C04"], model="WW.Trio.computeD", theorem="WW.KernelsCurve.gen_trio_compute_d_eq_model", module="WW.Props.Kernels.Curve"),
    dict(lean="trio_compute_mint_amount_for_deposit", file=CURVE_RS, impl="StableSwap", fn="compute_mint_amount_for_deposit",
         types={"StableSwap": "StableSwap"},
         props=["C04"], model="WW.Trio.mintAmount", theorem="WW.KernelsCurve.gen_trio_compute_mint_amount_for_deposit_eq_model", module="WW.Props.Kernels.Curve"),
    dict(lean="trio_compute_y_raw", file=CURVE_RS, impl="StableSwap", fn="compute_y_raw", types={"StableSwap": "StableSwap"},
         props=["C04"], model="WW.Trio.yRaw", theorem="WW.KernelsCurve.gen_trio_compute_y_raw_eq_model", module="WW.Props.Kernels.Curve"),
    dict(lean="trio_compute_y", file=CURVE_RS, impl="StableSwap", fn="compute_y", types={"StableSwap": "StableSwap"},
         props=["C04"], model="WW.Trio.computeY", theorem="WW.KernelsCurve.gen_trio_compute_y_eq_model", module="WW.Props.Kernels.Curve"),
    dict(lean="trio_swap_to", file=CURVE_RS, impl="StableSwap", fn="swap_to", types={"StableSwap": "StableSwap", "SwapResult": "SwapResult"},
         props=["C04"], model="WW.Trio.swapTo", theorem="WW.KernelsCurve.gen_trio_swap_to_eq_model", module="WW.Props.Kernels.Curve"),
    dict(lean="trio_compute_swap", file=TRIO_HELPERS, fn="compute_swap",
         types={"StableSwap": "StableSwap", "SwapResult": "SwapResult", "PoolFee": "TrioPoolFee", "Fee": "Fee",
                "SwapComputation": "TrioSwapComputation"},
         props=["C04"], model="WW.Trio.computeSwap", theorem="WW.KernelsTrioSwap.gen_trio_compute_swap_eq_model", module="WW.Props.Kernels.TrioSwap"),
    # ---- the pair's Decimal256 stableswap swap path: math.rs extension trait, d / y Newton solvers, StableSwap arm
    dict(lean="Decimal256Helper_decimal_with_precision", file=PAIR_MATH, impl="Decimal256Helper for Decimal256", fn="decimal_with_precision",
         props=["C03"], model="WW.dec256WithPrecision", theorem="WW.KernelsStable2Swap.gen_decimal_with_precision_eq_model", module="WW.Props.Kernels.Stable2Swap"),
    dict(lean="Decimal256Helper_checked_multiply_ratio", file=PAIR_MATH, impl="Decimal256Helper for Decimal256", fn="checked_multiply_ratio",
         props=["C03"], model="WW.mulRatioC U256MAX", theorem="WW.KernelsStable2Swap.gen_checked_multiply_ratio_eq_model", module="WW.Props.Kernels.Stable2Swap"),
    dict(lean="Decimal256Helper_to_uint256_with_precision", file=PAIR_MATH, impl="Decimal256Helper for Decimal256", fn="to_uint256_with_precision",
         props=["C03"], model="WW.dec256ToUintPrecision", theorem="WW.KernelsStable2Swap.gen_to_uint256_with_precision_eq_model", module="WW.Props.Kernels.Stable2Swap"),
    dict(lean="calculate_stableswap_d", file=PAIR_HELPERS, fn="calculate_stableswap_d",
         props=["C03"], model="WW.ssD", theorem="WW.KernelsStable2Swap.gen_calculate_stableswap_d_eq_model", module="WW.Props.Kernels.Stable2Swap"),
    dict(lean="calculate_stableswap_y", file=PAIR_HELPERS, fn="calculate_stableswap_y", types={"StableSwapDirection": "StableSwapDirection"},
         props=["C03"], model="WW.ssY", theorem="WW.KernelsStable2Swap.gen_calculate_stableswap_y_eq_model", module="WW.Props.Kernels.Stable2Swap"),
    dict(lean="compute_swap_StableSwap", file=PAIR_HELPERS, fn="compute_swap",
         types={"PoolFee": "PoolFee", "Fee": "Fee", "PairType": "PairType", "SwapComputation": "SwapComputation",
                "StableSwapDirection": "StableSwapDirection"},
         specialize={"swap_type": "PairType::StableSwap"},
         props=["C03"], model="WW.ssSwap", theorem="WW.KernelsStable2Swap.gen_compute_swap_StableSwap_eq_model", module="WW.Props.Kernels.Stable2Swap"),
]


# ---- additions: epoch / configuration validators of the fee distributor and the whale lair ----------------------
LH = "contracts/liquidity_hub/"
DIST_HELPERS = LH + "fee_distributor/src/helpers.rs"
LAIR_HELPERS = LH + "whale_lair/src/helpers.rs"
LAIR_STATE = LH + "whale_lair/src/state.rs"
EPOCH_MANAGER_RS = STD + "epoch_manager/epoch_manager.rs"
TYPES["EpochConfig"] = dict(rust="EpochConfig", file=EPOCH_MANAGER_RS, lean="EpochConfig")
KERNELS += [
    dict(lean="validate_grace_period", file=DIST_HELPERS, fn="validate_grace_period",
         props=["C18", "C09"], model="WW.Config.graceValid / the grace test of WW.Distributor.updateGrace",
         theorem="WW.KernelsEpochCfg.gen_validate_grace_period_eq_model", module="WW.Props.Kernels.EpochCfg",
         also=["WW.Props.Kernels.DistGrace"]),
    dict(lean="validate_epoch_config", file=DIST_HELPERS, fn="validate_epoch_config", types={"EpochConfig": "EpochConfig"},
         props=["C18", "C20"], model="WW.Config.durationValid / WW.Epoch.validEpochConfig",
         theorem="WW.KernelsEpochCfg.gen_validate_epoch_config_eq_model", module="WW.Props.Kernels.EpochCfg",
         also=["WW.Props.Kernels.EpochClock"]),
    dict(lean="validate_growth_rate", file=LAIR_HELPERS, fn="validate_growth_rate",
         props=["C18"], model="WW.Config.growthValid",
         theorem="WW.KernelsEpochCfg.gen_validate_growth_rate_eq_model", module="WW.Props.Kernels.EpochCfg"),
    dict(lean="lair_calculate_epoch", file=LAIR_HELPERS, fn="calculate_epoch", types={"EpochConfig": "EpochConfig"},
         props=["C08", "C09"], model="WW.Lair.calcEpoch",
         theorem="WW.KernelsLairEpoch.gen_lair_calculate_epoch_eq_model", module="WW.Props.Kernels.LairEpoch"),
    dict(lean="lair_get_weight", file=LAIR_STATE, fn="get_weight",
         props=["C08"], model="WW.Lair.getWeight",
         theorem="WW.KernelsLairWeight.gen_lair_get_weight_eq_model", module="WW.Props.Kernels.LairWeight"),
]


# ---- additions: BTreeMap look-ups, tuple types / patterns, assignment from inside `if let` --------------------------
# (the incentive's flow helpers `get_flow_asset_amount_at_epoch`, `get_flow_end_epoch`, `get_flow_current_end_epoch`)
#
# Map semantics (trusted base, see STRUCTURAL below): a value of type `BTreeMap<K, V>` with K a machine integer is
# the association list `List (Nat × V)` of its entries.  NOTHING is assumed about that list (neither sorted nor
# duplicate-free); the two primitives of `lean/WW/Cw/BTree.lean` are total on every list.  Translator types:
#   ('tuple', T1, .., Tn)  a Rust tuple type `(T1, .., Tn)`, n >= 2          -> Lean `T1 × .. × Tn`
#   ('btree', K, V)        `BTreeMap<K, V>`                                    -> Lean `List (Nat × V)`
_U64_HIST = ("btree", "u64", ("tuple", "Uint128", "u64"))
_U64_HIST_ENTRY = ("opt", ("tuple", "u64", ("tuple", "Uint128", "u64")))
RANGE_TO_INCL_NEXT_BACK = "range(..=b).next_back"
SEM += [
    R("m", "last_key_value", (_U64_HIST,), _U64_HIST_ENTRY, "btreeLastKeyValue {0}", "pure",
      "Rust std alloc::collections::btree_map BTreeMap::last_key_value: `Returns the last key-value pair in the map. The key in this pair is the maximum key in the map.`; None for the empty map (the references `(&K, &V)` are the values)"),
    R("m", RANGE_TO_INCL_NEXT_BACK, (_U64_HIST, "u64"), _U64_HIST_ENTRY, "btreeRangeToInclNextBack {0} {1}", "pure",
      "Rust std BTreeMap::range(..=b): double-ended iterator over the entries with key <= b (RangeToInclusive) in ascending key order; core::iter::DoubleEndedIterator::next_back on the fresh iterator: its last element = the entry with the greatest key <= b, None when there is none"),
]
STRUCTURAL += [
    ("BTreeMap<K, V> (K a machine integer), as a field / parameter type",
     "the association list `List (Nat × V)` of the map's entries, in no particular order and with no assumption on it; only the two look-up rows `last_key_value` and `range(..=b).next_back()` of SEM apply (`range(..b)`, `range(a..)`, `first_key_value`, `get`, `insert`, iteration … stay UNTRANSLATABLE)"),
    ("(T1, .., Tn) as a type, n >= 2", "Lean product `T1 × .. × Tn`"),
    ("if let Some((p1, .., pn)) = e  with pi one of `_`, a name, `&`pattern, a nested tuple pattern",
     "Lean `match e with | some (p1, .., pn) => … | _ => …`; `&` in a pattern is dropped (values are immutable numbers)"),
    ("if let PAT = e { x = v; }   (a statement, no `else`, the body is exactly one assignment to a `let mut` local x of the enclosing linear region, v without effects)",
     "`let x := match e with | PAT => v | _ => x`: e is evaluated first (its effects in place), x keeps its value when the pattern does not match"),
]
PRIM_NAMES |= {"btreeLastKeyValue", "btreeRangeToInclNextBack"}

# -- parser: tuple types `(A, B)`, tuple patterns `(p, q)`, the prefix ranges `..=e` / `..e`
_parser_ty_base = Parser.ty
_parser_pattern_base = Parser.pattern
_parser_expr_base = Parser.expr


def _parser_ty_with_tuples(self):
    if self.at("(") and not self.at(")", 1):
        ln = self.peek().line
        self.p += 1
        elems = [self.ty()]
        while self.eat(","):
            if self.at(")"):
                break
            elems.append(self.ty())
        self.expect(")")
        if len(elems) < 2:
            raise U(ln, "parenthesised type / one-element tuple type")
        return N("ttuple", ln, elems=elems)
    return _parser_ty_base(self)


def _parser_pattern_with_tuples(self):
    if self.at("("):
        ln = self.peek().line
        self.p += 1
        subs = []
        while not self.at(")"):
            subs.append(self.pattern())
            if not self.eat(","):
                break
        self.expect(")")
        if len(subs) < 2:
            raise U(ln, "unit / parenthesised / one-element tuple pattern")
        return N("ptup", ln, subs=subs)
    return _parser_pattern_base(self)


def _parser_expr_with_prefix_range(self, minp, nostruct):
    if minp == 0 and (self.at("..=") or self.at("..")):
        t = self.peek()
        self.p += 1
        if self.at(")") or self.at("{") or self.at("]") or self.at(";") or self.at(","):
            raise U(t.line, "full range `..`")
        hi = self.expr(1, nostruct)
        return N("range", t.line, lo=None, hi=hi, incl=(t.s == "..="))
    return _parser_expr_base(self, minp, nostruct)


Parser.ty = _parser_ty_with_tuples
Parser.pattern = _parser_pattern_with_tuples
Parser.expr = _parser_expr_with_prefix_range

# -- types
_resolve_type_base2 = resolve_type
_lean_type_base2 = lean_type
_type_matches_base = type_matches
_STRUCTURED_KINDS = ("tuple", "btree")


def resolve_type(ctx, t, names, self_ty, ret=False):   # noqa: F811 (wrapper; the recursive calls reach it)
    if t["k"] == "ttuple":
        return ("tuple",) + tuple(resolve_type(ctx, x, names, self_ty) for x in t["elems"])
    if t["k"] == "tpath" and t["segs"][-1] == "BTreeMap":
        if len(t["args"]) != 2:
            raise U(t["line"], "BTreeMap without two type arguments")
        kt = resolve_type(ctx, t["args"][0], names, self_ty)
        if kt not in INTS:
            raise U(t["line"], f"BTreeMap with key type {show_type(kt)} (only machine integers: the key order is the order of Nat)")
        return ("btree", kt, resolve_type(ctx, t["args"][1], names, self_ty))
    return _resolve_type_base2(ctx, t, names, self_ty, ret)


def lean_type(ctx, t):   # noqa: F811
    if isinstance(t, tuple) and t and t[0] == "tuple":
        return " × ".join(atom(lean_type(ctx, x)) for x in t[1:])
    if isinstance(t, tuple) and t and t[0] == "btree":
        return f"List (Nat × {atom(lean_type(ctx, t[2]))})"
    return _lean_type_base2(ctx, t)


def type_matches(spec, t, first=None):   # noqa: F811
    if isinstance(spec, tuple) and spec and spec[0] in _STRUCTURED_KINDS:
        return spec == t
    return _type_matches_base(spec, t, first)


# -- patterns: `Some((p1, .., pn))` on an Option of a tuple
_tr_pattern_base = Tr.pattern


def _tuple_pattern(p, ty, line):
    """pattern p against a value of type ty inside a tuple pattern -> (lean pattern, {rust var: type})"""
    if p["k"] == "pwild":
        return "_", {}
    if p["k"] == "pbind" and not p["mut"]:
        return lean_ident(p["name"]), {p["name"]: ty}
    if p["k"] == "ptup":
        if not (isinstance(ty, tuple) and ty and ty[0] == "tuple"):
            raise U(line, f"tuple pattern on a value of type {show_type(ty)}")
        if len(p["subs"]) != len(ty) - 1:
            raise U(line, "tuple pattern and tuple type have different lengths")
        parts, binds = [], {}
        for sp, st in zip(p["subs"], ty[1:]):
            lp, b = _tuple_pattern(sp, st, line)
            for name in b:
                if name in binds:
                    raise U(line, f"`{name}` is bound twice in a pattern")
            binds.update(b)
            parts.append(lp)
        return "(" + ", ".join(parts) + ")", binds
    raise U(line, "pattern inside a tuple pattern is not `_`, a name or a tuple pattern")


def _tr_pattern_with_tuples(self, p, st, line):
    if isinstance(st, tuple) and st[0] == "opt" and p["k"] == "ptuple" and p["segs"] == ["Some"] \
            and len(p["subs"]) == 1 and p["subs"][0]["k"] == "ptup":
        lp, binds = _tuple_pattern(p["subs"][0], st[1], line)
        return f"some {lp}", binds
    return _tr_pattern_base(self, p, st, line)


Tr.pattern = _tr_pattern_with_tuples

# -- statements: `if let PAT = e { x = v; }`
_tr_stmt_base = Tr.stmt


def _tr_stmt_iflet_assign(self, st, env):
    if st["k"] == "sexpr" and st["e"]["k"] == "iflet" and st["e"]["els"] is None:
        ife = st["e"]
        then = ife["then"]
        if then["k"] == "block" and then["tail"] is None and len(then["stmts"]) == 1 \
                and then["stmts"][0]["k"] == "sexpr" and then["stmts"][0]["e"]["k"] == "assign":
            asg = then["stmts"][0]["e"]
            lhs = asg["lhs"]
            if asg["op"] == "=" and lhs["k"] == "path" and len(lhs["segs"]) == 1 \
                    and lhs["segs"][0] in self.assignable and lhs["segs"][0] in self.mutable \
                    and lhs["segs"][0] in env and lhs["segs"][0] not in self.uninit:
                name, ln = lhs["segs"][0], ife["line"]
                t = env[name]
                sa, sty = self.tr(ife["e"], env, None)
                if isinstance(sty, tuple) and sty[0] == "res":
                    raise U(ln, "`if let` on a Result / checked-Option computation")
                lp, binds = self.pattern(ife["pat"], sty, ln)
                if name in binds:
                    raise U(ln, f"the pattern binds `{name}`, the variable that the body assigns")
                env2 = dict(env)
                env2.update(binds)
                saved, self.out = self.out, []
                saved_assignable, self.assignable = self.assignable, set()
                try:
                    a, at = self.tr(asg["rhs"], env2, t)
                    eff = self.out
                finally:
                    self.out, self.assignable = saved, saved_assignable
                if eff:
                    raise U(asg["line"], "the value assigned inside `if let` has effects")
                if at != t:
                    raise U(asg["line"], f"assigned value has type {show_type(at)}, the variable has type {show_type(t)}")
                lname = lean_ident(name)
                self.emit_lines(wrap(f"let {lname} := (", [f"match {sa} with", f"| {lp} => {a}", f"| _ => {lname}"], ")"))
                return
    return _tr_stmt_base(self, st, env)


Tr.stmt = _tr_stmt_iflet_assign

# -- method calls: `m.range(..=b).next_back()` (the other map method, `last_key_value`, is an ordinary SEM row)
_tr_mcall_base2 = Tr.tr_mcall


def _tr_mcall_btree(self, e, env, expected, hint):
    if e["name"] == "next_back" and not e["args"] and e["turbofish"] is None:
        r0 = e["recv"]
        while r0["k"] == "paren":
            r0 = r0["e"]
        if r0["k"] == "mcall" and r0["name"] == "range" and len(r0["args"]) == 1 and r0["turbofish"] is None:
            rg = r0["args"][0]
            while rg["k"] == "paren":
                rg = rg["e"]
            ma, mt = self.tr(r0["recv"], env, None)
            if not (isinstance(mt, tuple) and mt[0] == "btree"):
                raise U(e["line"], f"`.range(..).next_back()` on {show_type(mt)}")
            if rg["k"] != "range" or rg["lo"] is not None or rg["hi"] is None or not rg["incl"]:
                raise U(e["line"], "no semantic-table row for `.range(R).next_back()` on a BTreeMap with R other than `..=b`")
            ba, bt = self.tr(rg["hi"], env, mt[1])
            row = self.find("m", RANGE_TO_INCL_NEXT_BACK, (mt, bt), e["line"], "`.range(..=b).next_back()`")
            return self.apply_row(row, [ma, ba], hint), self.res_type(row, (mt, bt))
    return _tr_mcall_base2(self, e, env, expected, hint)


Tr.tr_mcall = _tr_mcall_btree

# -- kernels
INC_HELPERS = PN + "incentive/src/helpers.rs"
INCENTIVE_RS = STD + "pool_network/incentive.rs"
TYPES["Flow"] = dict(rust="Flow", file=INCENTIVE_RS, lean="Flow", names={"Asset": "Asset"})
KERNELS += [
    dict(lean="get_flow_asset_amount_at_epoch", file=INC_HELPERS, fn="get_flow_asset_amount_at_epoch", types={"Flow": "Flow"},
         props=["C12", "C13"], model="WW.Inc.Flow.amountAt",
         theorem="WW.KernelsFlowHist.gen_get_flow_asset_amount_at_epoch_eq_model", module="WW.Props.Kernels.FlowHist"),
    dict(lean="get_flow_end_epoch", file=INC_HELPERS, fn="get_flow_end_epoch", types={"Flow": "Flow"},
         props=["C12", "C13"], model="WW.Inc.Flow.expanded (second component; over WW.Inc.Flow.lastHist)",
         theorem="WW.KernelsFlowHist.gen_get_flow_end_epoch_eq_model", module="WW.Props.Kernels.FlowHist"),
    dict(lean="get_flow_current_end_epoch", file=INC_HELPERS, fn="get_flow_current_end_epoch", types={"Flow": "Flow"},
         props=["C12", "C13"], model="WW.Inc.Flow.endAt",
         theorem="WW.KernelsFlowHist.gen_get_flow_current_end_epoch_eq_model", module="WW.Props.Kernels.FlowHist"),
]

# ---- additions: FRAGMENT kernels — a stretch of consecutive statements inside a storage-reading handler ------------
# A handler such as the vault's `after_trade` reads its configuration and the chain (storage, queries) and then
# does arithmetic INLINE.  A fragment kernel ties that inline arithmetic to the model: the kernel entry names the
# handler (`fn`), the first and the last source line of the stretch by a regular expression each (`start`: must
# match EXACTLY ONE line of the handler's text; `end`: the first line at or after it that matches, plus `end_plus`
# lines; no match: the kernel fails loudly), the variables the stretch
# reads from what came before it as typed parameters (`params`: name -> Rust type text, parsed by the ordinary type
# parser), and the locals whose values are the result (`result`).  The tokens of the selected lines are parsed as
# one block `{ <lines> }` by the ordinary parser and translated by the ordinary statement rules — nothing in the
# stretch is skipped; a statement the translator does not understand (a storage access, a query, a message) makes
# the kernel UNTRANSLATABLE.  The generated definition returns the tuple of the `result` locals (`Res (T1 × … × Tn)`);
# `?` / `return Err(..)` inside the stretch end it with `err` as in a function returning `Result`.
# What a fragment does NOT establish (trusted, stated in DESIGN 9.7): that the values the handler binds to the
# parameter names before the stretch are the ones the model passes, and what the handler does with the results
# afterwards — those stay with the sampled correspondence.
ERROR_TYPES = ERROR_TYPES + ("VaultError",)
SEM += [
    R("bin", "*", ("Decimal", "Uint128"), "Uint128", "u128MulDec {1} {0}", "bind",
      "decimal.rs `impl Mul<Uint128> for Decimal { fn mul(self, rhs: Uint128) -> Uint128 { rhs * self } }`: the row of `Uint128 * Decimal` with the operands exchanged (both operands are values already evaluated, left first)"),
]
STRUCTURAL += [
    ("fragment kernel (`fragment=dict(start, end, params, result)`)",
     "the consecutive source lines start..end of a handler, parsed as one block; free variables = typed parameters; result = tuple of named locals; `?` / `return Err` = `Res.err`"),
]

_translate_whole_fn = Tr.translate
_term_of_base = Tr.term_of


def _parse_type_text(text, line):
    toks = tokenize(text)
    for t in toks:
        t.line = line
    ps = Parser(toks)
    ty = ps.ty()
    if ps.peek().k != "eof":
        raise U(line, f"trailing tokens in the parameter type `{text}`")
    return ty


def _translate_fragment(self):
    k = self.kern
    fr = k.get("fragment")
    if not fr:
        return _translate_whole_fn(self)
    f = self.file
    it = f.unique(f.fns, (k.get("impl"), k["fn"]), "fn")
    cfg_keep(it["attrs"], it["line0"])
    sel = {}
    rx = re.compile(fr["start"])
    hits = [ln for ln in range(it["line0"], it["line1"] + 1) if rx.search(f.lines[ln - 1])]
    if len(hits) != 1:
        raise U(it["line0"], f"fragment start pattern /{fr['start']}/ matches {len(hits)} lines of `{k['fn']}` (exactly one is required)")
    sel["start"] = hits[0]
    # the end line is the FIRST line at or after the start line that matches `end`
    rx = re.compile(fr["end"])
    hits = [ln for ln in range(sel["start"], it["line1"] + 1) if rx.search(f.lines[ln - 1])]
    if not hits:
        raise U(sel["start"], f"fragment end pattern /{fr['end']}/ matches no line of `{k['fn']}` at or after the start line")
    sel["end"] = hits[0]
    sel["end"] += int(fr.get("end_plus", 0))
    if sel["end"] < sel["start"]:
        raise U(sel["start"], "fragment ends before it starts")
    body_toks = [t for t in f.toks if t.k != "eof" and sel["start"] <= t.line <= sel["end"]]
    if not body_toks:
        raise U(sel["start"], "empty fragment")
    # `subst`: a place expression of the handler that the stretch only READS (e.g. `env.block.height`,
    # `pair_info.pair_type`) is named as a parameter: every occurrence of exactly that token sequence is replaced by
    # the parameter's identifier before parsing (the sequence must occur; a longer path through it, `a.b.c` for a
    # substituted `a.b`, is refused because the replacement would change its meaning silently)
    for text, ident in fr.get("subst", []):
        want = [t.s for t in tokenize(text) if t.k != "eof"]
        out, i, hits = [], 0, 0
        while i < len(body_toks):
            if [t.s for t in body_toks[i:i + len(want)]] == want and not (i > 0 and body_toks[i - 1].s in (".", "::")):
                nxt = body_toks[i + len(want)] if i + len(want) < len(body_toks) else None
                if nxt is not None and nxt.s == "." and body_toks[i + len(want) + 1].k == "id" and \
                        not (i + len(want) + 2 < len(body_toks) and body_toks[i + len(want) + 2].s == "("):
                    raise U(body_toks[i].line, f"substituted place `{text}` is used as the prefix of a longer field path")
                out.append(Tok("id", ident, body_toks[i].line))
                i += len(want)
                hits += 1
            else:
                out.append(body_toks[i])
                i += 1
        if not hits:
            raise U(sel["start"], f"substituted place `{text}` does not occur in the fragment")
        body_toks = out
        self.notes.append(f"the place `{text}` read by the stretch is the parameter `{ident}`")
    toks = [Tok("p", "{", sel["start"])] + body_toks + [Tok("p", "}", sel["end"]), Tok("eof", "", sel["end"])]
    ps = Parser(toks)
    blk = ps.block()
    if ps.peek().k != "eof":
        raise U(ps.peek().line, "the fragment's lines are not a sequence of complete statements")
    if blk["tail"] is not None and blk["tail"]["k"] == "if" and blk["tail"]["els"] is None:
        # a stretch ending in `if c { .. }` (no `else`, unit value): an expression statement like any other
        blk["stmts"].append(N("sexpr", blk["tail"]["line"], e=blk["tail"]))
        blk["tail"] = None
    if blk["tail"] is not None:
        raise U(sel["end"], "the fragment ends in an expression without `;`")
    self.item = dict(it, line0=sel["start"], line1=sel["end"])
    self.self_ty = None
    env, params = {}, []
    for pname, ptext in fr["params"]:
        t = resolve_type(self.ctx, _parse_type_text(ptext, sel["start"]), self.names, None)
        env[pname] = t
        params.append((lean_ident(pname), t))
    self.into_params = set()
    self.spec_field_names = set()
    self.ret_is_option = False
    self.ret = ("res", NEVER)   # placeholder while the statements are translated: `?` and `return Err` are allowed
    blk["tail"] = N("fragresult", sel["end"], names=list(fr["result"]))
    self.notes.append(f"FRAGMENT of `{k['fn']}` ({k['file']}:{it['line0']}-{it['line1']}): source lines {sel['start']}-{sel['end']}; "
                      f"parameters = the variables the stretch reads ({', '.join(n for n, _ in fr['params'])}); result = ({', '.join(fr['result'])})")
    # `mut_params`: parameters standing for places the stretch ASSIGNS (`current_epoch.id = …` after `subst`):
    # `let mut` locals of the stretch's own linear region, so the ordinary assignment rule applies to them
    mut = set(fr.get("mut_params", []))
    if not mut <= set(env):
        raise U(sel["start"], "a mutable parameter is not a parameter")
    self.mutable |= mut
    saved_out, self.out = self.out, []
    saved_assignable, self.assignable = self.assignable, set(mut)
    try:
        lines, ty = self.block_term(blk, "fn", dict(env), None)
        lines = self.out + lines
    finally:
        self.out = saved_out
        self.assignable = saved_assignable
    inner = ty[1] if isinstance(ty, tuple) and ty[0] == "res" else ty
    self.ret = ("res", inner)
    self.params, self.ret_inner = params, inner
    sig = " ".join(f"({n} : {lean_type(self.ctx, t)})" for n, t in params)
    head = f"def {k['lean']} {sig} : Res {atom(lean_type(self.ctx, inner))} := do".replace("  :", " :")
    return [head] + indent(lines)


def _term_of_with_fragresult(self, e, mode, env, expected=None):
    if e["k"] == "fragresult":
        vals, tys = [], []
        for n in e["names"]:
            if n not in env or (isinstance(env[n], tuple) and env[n] and env[n][0] == "special"):
                raise U(e["line"], f"fragment result `{n}` is not a local of the stretch")
            if n in self.uninit:
                raise U(e["line"], f"fragment result `{n}` has no value")
            vals.append(lean_ident(n))
            tys.append(env[n])
        if len(vals) == 1:
            return [f"pure {vals[0]}"], ("res", tys[0])
        return ["pure (" + ", ".join(vals) + ")"], ("res", ("tuple",) + tuple(tys))
    return _term_of_base(self, e, mode, env, expected)


Tr.translate = _translate_fragment
Tr.term_of = _term_of_with_fragresult

# `std::cmp::min(a, b)` / `std::cmp::max(a, b)` (also `core::cmp::`, `cmp::`): the rows of the methods `a.min(b)` / `a.max(b)`
# (core::cmp: `pub fn min<T: Ord>(v1: T, v2: T) -> T { v1.min(v2) }`); arguments evaluated left to right.
# `module::f(args)` where the kernel entry maps `module` to a source file (`modules={"helpers": <file>}`): a call of the
# kernel translated from the free function `f` of that file (the `use` / `mod` structure of the crate is NOT read: the
# mapping is part of the kernel table, trusted like the table's file names).
STRUCTURAL += [
    ("std::cmp::min / std::cmp::max", "the `min` / `max` method rows of SEM on the two evaluated arguments"),
    ("module::f(..) with `modules` in the kernel entry", "call of the kernel translated from free function f of the mapped file"),
]
_tr_call_base = Tr.tr_call


def _tr_call_with_cmp_and_modules(self, e, env, expected, hint):
    f = e["f"]
    if f["k"] == "path":
        segs, ln, args = f["segs"], e["line"], e["args"]
        if segs[-1] in ("min", "max") and segs[:-1] in (["std", "cmp"], ["core", "cmp"], ["cmp"]) and len(args) == 2:
            a, ta = self.tr(args[0], env, expected if isinstance(expected, str) else None)
            b, tb = self.tr(args[1], env, ta if isinstance(ta, str) else None)
            row = self.find("m", segs[-1], (ta, tb), ln, f"`{'::'.join(segs)}`")
            return self.apply_row(row, [a, b], hint), self.res_type(row, (ta, tb))
        mods = self.kern.get("modules", {})
        if len(segs) == 2 and segs[0] in mods:
            for kk in self.ctx.kernels:
                if kk["fn"] == segs[1] and kk.get("impl") is None and kk["file"] == mods[segs[0]] \
                        and "specialize" not in kk and "fragment" not in kk:
                    kk = self.need_translated(kk, ln)
                    if len(args) != len(kk["_params"]):
                        raise U(ln, "wrong number of arguments")
                    vals = [self.tr(x, env, pt) for x, (_, pt) in zip(args, kk["_params"])]
                    return self.call_kernel(kk, vals, ln, hint)
            raise U(ln, f"`{'::'.join(segs)}`: no kernel translated from `{segs[1]}` of {mods[segs[0]]}")
    return _tr_call_base(self, e, env, expected, hint)


Tr.tr_call = _tr_call_with_cmp_and_modules

VAULT_STD = STD + "vault_network/vault.rs"
VAULT_SRC = LH + "vault-network/vault/src/"
TYPES["VaultConfig"] = dict(rust="Config", file=VAULT_STD, lean="VaultConfig", names={"VaultFee": "VaultFee", "Fee": "Fee"})
KERNELS += [
    dict(lean="vault_after_trade_settlement", file=VAULT_SRC + "execute/callback/after_trade.rs", fn="after_trade",
         fragment=dict(start=r"^\s*let protocol_fee\s*=", end=r"^\s*\.checked_sub\(burn_fee\)\?;",
                       params=[("config", "Config"), ("old_balance", "Uint128"), ("loan_amount", "Uint128"), ("new_balance", "Uint128")],
                       result=["protocol_fee", "flash_loan_fee", "burn_fee", "required_amount", "profit"]),
         types={"Config": "VaultConfig", "VaultFee": "VaultFee", "Fee": "Fee"},
         props=["C05", "C06", "C07"], model="WW.Vault.fee / the first two tests of WW.Vault.afterTradeOk",
         theorem="WW.KernelsVault.gen_vault_after_trade_settlement_eq_model", module="WW.Props.Kernels.Vault"),
]

KERNELS += [
    dict(lean="vault_payback_amount", file=VAULT_SRC + "queries/get_payback_amount.rs", fn="get_payback_amount",
         fragment=dict(start=r"^\s*let protocol_fee\s*=", end=r"^\s*\.checked_add\(burn_fee\)\?;",
                       params=[("config", "Config"), ("amount", "Uint128")],
                       result=["protocol_fee", "flash_loan_fee", "burn_fee", "required_amount"]),
         types={"Config": "VaultConfig", "VaultFee": "VaultFee", "Fee": "Fee"},
         props=["C06"], model="WW.Vault.payback / WW.Vault.fee",
         theorem="WW.KernelsVault.gen_vault_payback_amount_eq_model", module="WW.Props.Kernels.Vault"),
    dict(lean="vault_withdraw_amount", file=VAULT_SRC + "execute/receive/withdraw.rs", fn="withdraw",
         fragment=dict(start=r"^\s*let withdraw_amount\s*=", end=r"^\s*let withdraw_amount\s*=",
                       params=[("amount", "Uint128"), ("total_share", "Uint128"), ("total_asset_amount", "Uint128")],
                       result=["withdraw_amount"]),
         props=["C05"], model="WW.Vault.shareOf",
         theorem="WW.KernelsVault.gen_vault_withdraw_amount_eq_model", module="WW.Props.Kernels.Vault"),
    dict(lean="vault_share_query_amount", file=VAULT_SRC + "queries/get_share.rs", fn="get_share",
         fragment=dict(start=r"^\s*let asset_share\s*=", end=r"^\s*let asset_share\s*=",
                       params=[("amount", "Uint128"), ("lp_amount", "Uint128"), ("balance", "Uint128")],
                       result=["asset_share"]),
         props=["C05"], model="WW.Vault.shareOf",
         theorem="WW.KernelsVault.gen_vault_share_query_amount_eq_model", module="WW.Props.Kernels.Vault"),
]

PAIR_COMMANDS = PN + "terraswap_pair/src/commands.rs"
KERNELS += [
    dict(lean="pair_provide_later_shares", file=PAIR_COMMANDS, fn="provide_liquidity",
         fragment=dict(start=r"^\s*let amount = std::cmp::min\(", end=r"^\s*total_share,\s*$",
                       end_plus=1,
                       params=[("deposits", "[Uint128; 2]"), ("pools", "[Asset; 2]"), ("total_share", "Uint128"),
                               ("slippage_tolerance", "Option<Decimal>"), ("pair_type", "PairType")],
                       subst=[("pair_info.pair_type", "pair_type")],
                       result=["amount"]),
         types={"PairType": "PairType", "Asset": "Asset"}, modules={"helpers": PAIR_HELPERS},
         props=["C01"], model="the later-deposit branch of WW.Pair.provideShares",
         theorem="WW.KernelsPair.gen_pair_provide_later_shares_eq_model", module="WW.Props.Kernels.Pair"),
]

# ---- epoch clocks (C20): the epoch manager's `create_epoch` and the fee distributor's `create_new_epoch` --------
SEM += [
    R("m", "minus_nanos", ("Timestamp", "u64"), "Timestamp", "psub {0} {1}", "bind",
      "cosmwasm-std 1.5.4 src/timestamp.rs minus_nanos: `Timestamp(self.0.strict_sub(Uint64::new(subtrahend)))`; uint64.rs strict_sub: panics on underflow (`attempt to subtract with overflow`)"),
    R("m", "plus_nanos", ("Timestamp", "u64"), "Timestamp", "padd U64MAX {0} {1}", "bind",
      "src/timestamp.rs plus_nanos: `self.0.strict_add(Uint64::new(addition))`; uint64.rs strict_add: panics above 2^64-1"),
    R("f", "Timestamp::from_nanos", ("u64",), "Timestamp", "{0}", "pure", "src/timestamp.rs from_nanos: `Timestamp(Uint64::new(nanos_since_epoch))`"),
    R("bin", "==", ("Uint64", "Uint64"), "bool", "decide ({0} = {1})", "pure", "uint64.rs #[derive(PartialEq, Eq)] on `Uint64(u64)`"),
]
EPOCH_MGR_COMMANDS = LH + "epoch-manager/src/commands.rs"
DIST_COMMANDS = LH + "fee_distributor/src/commands.rs"
ERROR_TYPES = ERROR_TYPES  # (ContractError is already an error type)
KERNELS += [
    dict(lean="epoch_manager_create_epoch_clock", file=EPOCH_MGR_COMMANDS, fn="create_epoch",
         fragment=dict(start=r"^\s*if env\s*$", end=r"\.plus_nanos\(config\.epoch_config\.duration\.u64\(\)\);",
                       params=[("now", "Timestamp"), ("epoch_start", "Timestamp"), ("epoch_id", "u64"), ("duration", "Uint64")],
                       subst=[("env.block.time", "now"), ("current_epoch.start_time", "epoch_start"),
                              ("current_epoch.id", "epoch_id"), ("config.epoch_config.duration", "duration")],
                       mut_params=["epoch_start", "epoch_id"],
                       result=["epoch_id", "epoch_start"]),
         props=["C20"], model="the clock arithmetic of WW.Epoch.Mgr.createEpoch",
         theorem="WW.KernelsEpochStep.gen_epoch_manager_create_epoch_clock_eq_model", module="WW.Props.Kernels.EpochStep"),
    dict(lean="distributor_new_epoch_start", file=DIST_COMMANDS, fn="create_new_epoch",
         fragment=dict(start=r"^\s*if env\s*$", end=r"^\s*\};\s*$",
                       params=[("now", "Timestamp"), ("cur_start", "Timestamp"), ("cur_id", "Uint64"), ("duration", "Uint64"),
                               ("genesis", "Uint64")],
                       subst=[("env.block.time", "now"), ("current_epoch.start_time", "cur_start"),
                              ("current_epoch.id", "cur_id"), ("config.epoch_config.duration", "duration"),
                              ("config.epoch_config.genesis_epoch", "genesis")],
                       result=["start_time"]),
         props=["C20"], model="the start-time arithmetic of WW.Epoch.Dist.createNewEpoch",
         theorem="WW.KernelsEpochStep.gen_distributor_new_epoch_start_eq_model", module="WW.Props.Kernels.EpochStep"),
]

# ---- the 3pool's amp-ramp validation (C04, C18): inline in `commands::update_config` ---------------------------------
# `consts_from`: further files of the same crate whose `const` items the stretch names through a `use` (the `use`
# structure is NOT read; the list is part of the kernel table).  A name is looked up in the kernel's own file first.
STRUCTURAL += [
    ("consts_from in the kernel entry", "a `const` named by the stretch is looked up in the kernel's file, then in the listed files of the crate; inlined like a local const"),
    ("nested error constructors / format! in error position", "`ContractError::Std(StdError::generic_err(format!(..)))`: nothing of an error value reaches the Lean side; the arguments of `format!` must be constants or effect-free"),
]
_tr_path_base = Tr.tr_path
_error_value_base = Tr.error_value


def _tr_path_with_consts_from(self, e, env, expected):
    segs = e["segs"]
    if len(segs) == 1 and segs[0] not in env and segs[0] not in self.file.consts and segs[0] not in ("None",):
        for rel in self.kern.get("consts_from", []):
            f2 = self.ctx.file(rel)
            if segs[0] in f2.consts:
                saved = self.file
                self.file = f2
                try:
                    return self.tr_const(segs[0], e["line"])
                finally:
                    self.file = saved
    return _tr_path_base(self, e, env, expected)


def _error_value_nested(self, e, env):
    k = e["k"]
    if k == "call" and e["f"]["k"] == "path" and is_error_path(e["f"]["segs"]):
        for a in e["args"]:
            if a["k"] == "str":
                continue
            if a["k"] == "call" and a["f"]["k"] == "path" and is_error_path(a["f"]["segs"]):
                self.error_value(a, env)
                continue
            if a["k"] == "macro" and a.get("name") == "format":
                continue
            self.pure_discard(a, env)
        return
    return _error_value_base(self, e, env)


Tr.tr_path = _tr_path_with_consts_from
Tr.error_value = _error_value_nested

TRIO_COMMANDS = PN + "stableswap_3pool/src/commands.rs"
TRIO_CONTRACT = PN + "stableswap_3pool/src/contract.rs"
TRIO_STD = STD + "pool_network/trio.rs"
TYPES["RampAmp"] = dict(rust="RampAmp", file=TRIO_STD, lean="RampAmp")
KERNELS += [
    dict(lean="StableSwap_new", file=CURVE_RS, impl="StableSwap", fn="new", types={"StableSwap": "StableSwap"},
         props=["C04", "C18"], model="(constructor; part of WW.Trio.AmpCfg.at)",
         theorem="WW.KernelsRamp.gen_trio_ramp_validation_eq_model", module="WW.Props.Kernels.Ramp"),
    dict(lean="trio_ramp_validation", file=TRIO_COMMANDS, fn="update_config",
         fragment=dict(start=r"^\s*let invariant = StableSwap::new\(", end=r"^\s*config\.future_amp = ramp\.future_a;",
                       params=[("initial_amp", "u64"), ("future_amp", "u64"), ("initial_amp_block", "u64"), ("future_amp_block", "u64"),
                               ("height", "u64"), ("ramp", "RampAmp")],
                       subst=[("env.block.height", "height"), ("config.initial_amp_block", "initial_amp_block"),
                              ("config.future_amp_block", "future_amp_block"), ("config.initial_amp", "initial_amp"),
                              ("config.future_amp", "future_amp")],
                       mut_params=["initial_amp", "future_amp", "initial_amp_block", "future_amp_block"],
                       result=["initial_amp", "future_amp", "initial_amp_block", "future_amp_block"]),
         types={"StableSwap": "StableSwap", "RampAmp": "RampAmp"}, consts_from=[TRIO_CONTRACT],
         props=["C04", "C18"], model="WW.Trio.rampAmp",
         theorem="WW.KernelsRamp.gen_trio_ramp_validation_eq_model", module="WW.Props.Kernels.Ramp"),
]

# ---- the fee collector's take rate (C10): inline in `contract::reply` -------------------------------------------------
SEM += [
    R("m", "checked_mul_floor", ("Uint128", "Decimal"), ("res", "Uint128"), "mulRatioC U128MAX {0} {1} E18", "pure",
      "cosmwasm-std 1.5.4 src/math/fraction.rs impl_mul_fraction!: `self.full_mul(rhs.numerator()).checked_div(rhs.denominator())?` then `try_into()?`; decimal.rs Fraction for Decimal: numerator = atomics, denominator = 10^18: Err when the floored quotient leaves 128 bits, never a panic"),
    R("bin", "!=", ("Decimal", "Decimal"), "bool", "decide ({0} ≠ {1})", "pure", "decimal.rs #[derive(PartialEq, Eq)] on `Decimal(Uint128)`: inequality of the atomics"),
]
STRUCTURAL += [
    ("r.unwrap_or(d) on the Result of a primitive checked_* operation", "`resUnwrapOr r d`: Err -> d (evaluated first-come, no effects allowed in d), a panic stays a panic"),
]
_tr_mcall_before_unwrap_or = Tr.tr_mcall


def _tr_mcall_unwrap_or_on_checked(self, e, env, expected, hint):
    if e["name"] == "unwrap_or" and len(e["args"]) == 1 and e["turbofish"] is None:
        r0 = e["recv"]
        while r0["k"] == "paren":
            r0 = r0["e"]
        if r0["k"] == "mcall" and r0["name"].startswith("checked_"):
            a, t = self.tr(r0, env, ("res", expected) if isinstance(expected, str) else None)
            if isinstance(t, tuple) and t[0] == "res" and isinstance(t[1], str):
                saved, self.out = self.out, []
                try:
                    d, dt = self.tr(e["args"][0], env, t[1])
                    eff = self.out
                finally:
                    self.out = saved
                if eff:
                    raise U(e["line"], "unwrap_or default has effects")
                if dt != t[1]:
                    raise U(e["line"], "unwrap_or default has another type")
                v = hint if hint else self.fresh()
                self.emit(f"let {v} ← resUnwrapOr ({a}) {atom(d)}")
                return v, t[1]
    return _tr_mcall_before_unwrap_or(self, e, env, expected, hint)


Tr.tr_mcall = _tr_mcall_unwrap_or_on_checked
COLLECTOR_CONTRACT = LH + "fee_collector/src/contract.rs"
KERNELS += [
    dict(lean="collector_take_rate_split", file=COLLECTOR_CONTRACT, fn="reply",
         fragment=dict(start=r"^\s*let take_rate_fee = token_balance\s*$", end=r"^\s*token_balance = token_balance\.saturating_sub\(take_rate_fee\);",
                       params=[("token_balance", "Uint128"), ("take_rate", "Decimal")],
                       subst=[("config.take_rate", "take_rate")], mut_params=["token_balance"],
                       result=["take_rate_fee", "token_balance"]),
         props=["C10"], model="WW.Collector.takeOf",
         theorem="WW.KernelsTakeRate.gen_collector_take_rate_split_eq_model", module="WW.Props.Kernels.TakeRate"),
]

# ---- the whale lair's unbond arithmetic (C08): inline in `commands::unbond` ------------------------------------------
LAIR_COMMANDS = LH + "whale_lair/src/commands.rs"
KERNELS += [
    dict(lean="lair_unbond_slash", file=LAIR_COMMANDS, fn="unbond",
         fragment=dict(start=r"^\s*let weight_slash = unbond\.weight \* Decimal::from_ratio",
                       end=r"^\s*unbond\.asset\.amount = unbond\.asset\.amount\.checked_sub\(asset\.amount\)\?;",
                       params=[("bond_weight", "Uint128"), ("bond_amount", "Uint128"), ("amount", "Uint128")],
                       subst=[("unbond.asset.amount", "bond_amount"), ("unbond.weight", "bond_weight"), ("asset.amount", "amount")],
                       mut_params=["bond_weight", "bond_amount"],
                       result=["weight_slash", "bond_weight", "bond_amount"]),
         props=["C08"], model="the slash / remaining-bond arithmetic of WW.Lair.unbondLocal",
         theorem="WW.KernelsLairUnbond.gen_lair_unbond_slash_eq_model", module="WW.Props.Kernels.LairUnbond"),
]

# ---- the fee distributor's claim reward (C09): one statement inside the loop over `epoch.total` ---------------------------
KERNELS += [
    dict(lean="distributor_claim_reward", file=DIST_COMMANDS, fn="claim",
         fragment=dict(start=r"^\s*let reward = fee\s*$", end=r"\.checked_mul_floor\(bonding_weight_response\.share\)\?;",
                       params=[("fee_amount", "Uint128"), ("share", "Decimal")],
                       subst=[("fee.amount", "fee_amount"), ("bonding_weight_response.share", "share")],
                       result=["reward"]),
         props=["C09"], model="the reward of WW.Distributor.claimFee",
         theorem="WW.KernelsDistClaim.gen_distributor_claim_reward_eq_model", module="WW.Props.Kernels.DistClaim"),
]

# ---- the incentive's claim arithmetic (C12, C13): two stretches inside the loop over epochs of `claim::claim` ---------------
INC_CLAIM = PN + "incentive/src/claim.rs"
KERNELS += [
    dict(lean="incentive_emission_per_epoch", file=INC_CLAIM, fn="claim",
         fragment=dict(start=r"^\s*let emission_per_epoch = flow_asset_amount\s*$",
                       end=r"\.checked_div\(Uint128::from\(flow_expanded_end_epoch - epoch_id\)\)\?;",
                       params=[("flow_asset_amount", "Uint128"), ("emitted_tokens", "Uint128"),
                               ("flow_expanded_end_epoch", "u64"), ("epoch_id", "u64")],
                       result=["emission_per_epoch"]),
         props=["C12", "C13"], model="the emission of WW.Inc.emissionStep",
         theorem="WW.KernelsIncClaim.gen_incentive_emission_per_epoch_eq_model", module="WW.Props.Kernels.IncClaim"),
    dict(lean="incentive_user_reward", file=INC_CLAIM, fn="claim",
         fragment=dict(start=r"^\s*let user_share_at_epoch = Decimal256::from_ratio\(user_weight, global_weight_at_epoch\);",
                       end=r"^\s*return Err\(ContractError::InvalidReward \{\}\);", end_plus=1,
                       params=[("user_weight", "Uint128"), ("global_weight_at_epoch", "Uint128"), ("emission_per_epoch", "Uint128"),
                               ("claimed_amount", "Uint128"), ("expanded_asset_amount", "Uint128")],
                       subst=[("flow.claimed_amount", "claimed_amount")],
                       result=["user_reward_at_epoch"]),
         props=["C12", "C13"], model="WW.Inc.rewardOf and the sanity check of WW.Inc.claimPay",
         theorem="WW.KernelsIncClaim.gen_incentive_user_reward_eq_model", module="WW.Props.Kernels.IncClaim"),
]

# the generated file imports the map primitives next to the number primitives
GEN_IMPORTS = ["import WW.Cw.Arith", "import WW.Cw.BTree"]


def sha(text):
    return hashlib.sha256(text.encode()).hexdigest()[:16]


def emit_type(ctx, key):
    td = ctx.types[key]
    kind, body, it = ctx.typedef(key)
    f = ctx.file(td["file"])
    h = sha(f.text(it["line0"], it["line1"]))
    out = []
    if kind == "struct":
        opaque = [n for n, t in body if t is None]
        note = f"; fields outside the type table are dropped: {', '.join(opaque)}" if opaque else ""
        out.append(f"/-- `struct {td['rust']}` — `{td['file']}:{it['line0']}-{it['line1']}` sha256:{h}{note} -/")
        out.append(f"structure {td['lean']} where")
        for n, t in body:
            if t is not None:
                out.append(f"  {lean_ident(n)} : {lean_type(ctx, t)}")
        out.append("deriving Repr, DecidableEq")
    else:
        out.append(f"/-- `enum {td['rust']}` — `{td['file']}:{it['line0']}-{it['line1']}` sha256:{h} -/")
        out.append(f"inductive {td['lean']} where")
        for vn, vf in body:
            if vf is None:
                out.append(f"  | {vn}")
            else:
                out.append(f"  | {vn} " + " ".join(f"({lean_ident(n)} : {lean_type(ctx, t)})" for n, t in vf))
        out.append("deriving Repr, DecidableEq")
    return out, dict(type=td["rust"], file=td["file"], lines=[it["line0"], it["line1"]], sha256=h, lean="WW.Gen.K." + td["lean"])


def main():
    ctx = Ctx(TYPES, KERNELS)
    failures, defs, listing = [], [], []
    for key in TYPES:   # every type of the table is emitted, whether or not a kernel that uses it translates
        try:
            ctx.typedef(key)
        except U as u:
            failures.append(dict(line=f"UNTRANSLATABLE type:{key} {TYPES[key]['file']}:{u.line} {u.reason}",
                                 module=None, also=[k["module"] for k in KERNELS if key in k.get("types", {}).values()],
                                 props=[], theorem=None))
    for k in KERNELS:
        qual = (k["impl"] + "::" if k.get("impl") else "") + k["fn"]
        if " for " in k.get("impl", ""):
            qual = "<{1} as {0}>::".format(*k["impl"].split(" for ")) + k["fn"]
        try:
            tr = Tr(ctx, k)
            lines = tr.translate()
        except U as u:
            failures.append(dict(line=f"UNTRANSLATABLE {qual} {k['file']}:{u.line} {u.reason}", module=k["module"],
                                 also=k.get("also", []), props=k["props"], theorem=k["theorem"]))
            continue
        except RecursionError:
            failures.append(dict(line=f"UNTRANSLATABLE {qual} {k['file']}:0 expression nesting too deep",
                                 module=k["module"], also=k.get("also", []), props=k["props"], theorem=k["theorem"]))
            continue
        k["_params"] = [(n, t) for n, t in tr.params]
        k["_into"] = set(tr.into_params)
        k["_ret"] = tr.ret
        it = tr.item
        h = sha(tr.file.text(it["line0"], it["line1"]))
        doc = [f"/-- `{qual}` — `{k['file']}:{it['line0']}-{it['line1']}` sha256:{h}"]
        for n in dict.fromkeys(tr.notes):
            doc.append(f"    {n}")
        doc.append(f"    model: `{k['model']}`; equivalence: `{k['theorem']}` -/")
        for a in tr.aux:
            defs.append(a)
        defs.append(doc + lines)
        listing.append(dict(fn=qual, file=k["file"], lines=[it["line0"], it["line1"]], sha256=h,
                            generated_def="WW.Gen.K." + k["lean"], model=k["model"], equivalence_theorem=k["theorem"],
                            module=k["module"], also=k.get("also", []), props=k["props"], calls=tr.calls,
                            sem_rows=sorted(i for i, r in enumerate(SEM) if id(r) in tr.rows)))
    types_out, types_listing = [], []
    for key in ctx.used_types:
        try:
            tl, tj = emit_type(ctx, key)
            types_out.append(tl)
            types_listing.append(tj)
        except U as u:
            failures.append(dict(line=f"UNTRANSLATABLE type:{key} {TYPES[key]['file']}:{u.line} {u.reason}",
                                 module=None, props=[], theorem=None))
    if "--list" in sys.argv:
        print(json.dumps({"kernels": listing, "types": types_listing, "failures": failures}, indent=1))
        return 3 if failures else 0
    text = ["/- GENERATED by tools/rs2lean.py from the Rust sources on every check run. Do not edit.",
            "   Each definition is the translation of one pure numeric kernel into the `WW.Res` monad; the theorems",
            "   `gen_*_eq_model` of `WW/Props/Kernels/*.lean` prove it equal to the hand-written model function. -/",
            *GEN_IMPORTS, "set_option linter.unusedVariables false", "namespace WW.Gen.K", "open WW", ""]
    for tl in types_out:
        text += tl + [""]
    for d in defs:
        text += d + [""]
    text += ["end WW.Gen.K", ""]
    text = "\n".join(text)
    js = json.dumps({"kernels": listing, "types": types_listing, "failures": failures,
                     "semantic_table_rows": len(SEM)}, indent=1, sort_keys=True) + "\n"
    changed = False
    for path, content in ((OUT, text), (OUT_JSON, js)):
        old = None
        try:
            old = open(path).read()
        except OSError:
            pass
        if old != content:
            os.makedirs(os.path.dirname(path), exist_ok=True)
            with open(path, "w") as f:
                f.write(content)
            changed = True
    for fl in failures:
        print(fl["line"])
    print(f"kernels: {len(listing)}/{len(KERNELS)} translated, " + ("regenerated" if changed else "unchanged"))
    return 3 if failures else 0


if __name__ == "__main__":
    sys.exit(main())
