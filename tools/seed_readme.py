#!/usr/bin/env python3
"""Regenerate seeded/README.md from the meta.json files."""
import glob, json, os
rows = []
for d in sorted(glob.glob("/verif/seeded/C*-*")):
    m = json.load(open(os.path.join(d, "meta.json")))
    rows.append((os.path.basename(d), m.get("title", "")[:110], m.get("needs", "")[:140].replace("\n", " "), m.get("check_result", ""), ", ".join(sorted(set(x for x in m.get("monitors_that_fired", []) if x)))[:90], m.get("note", "")))
out = ["# Seeded changes (written by workers that saw only the property text and a scratch worktree)", "",
"Each directory holds `patch.diff` (the change), `demo.diff` + `RUN.md` (a demonstration that passes on the clean tree and fails with the change) and `meta.json` (what it breaks, what it needs to manifest, what was run here: `tools/confirm_seed.sh` in a scratch worktree — demo passes clean / fails changed / unedited baseline 318 passed with the change — and `./check <ID>` against `/repo` with the patch applied and undone). Prompts are produced by `tools/seed_prompt.py` (property text + private worktree only).", "",
"| seed | change | needs | result of ./check | monitors that fired |", "|---|---|---|---|---|"]
for r in rows:
    out.append(f"| {r[0]} | {r[1]} | {r[2]} | {r[3]}{(' — ' + r[5]) if r[5] else ''} | {r[4]} |")
open("/verif/seeded/README.md", "w").write("\n".join(out) + "\n")
print(len(rows), "seeds")
