"""Per-property configuration of ./check, loaded from tools/checks/<ID>.json:
theorem modules (props), engines (case counts are totals per engine, split over shards; optional
`keys` = observation keys compared for this property), and the texts for MANIFEST.json / evidence."""
import glob
import json
import os

_D = os.path.join(os.path.dirname(os.path.abspath(__file__)), "checks")
CHECKS = {}
for _f in sorted(glob.glob(os.path.join(_D, "C*.json"))):
    CHECKS[os.path.basename(_f)[:-5]] = json.load(open(_f))

# reasons for properties not claimed yet (kept current; empty when everything is claimed)
NOT_YET = {}
