"""Per-property configuration of ./check: theorem modules, engines (with case counts per tier),
observation-key projection, and the texts that go into MANIFEST.json / evidence.

Case counts are totals per engine (split over shards)."""

CHECKS = {
    "C02": {
        "title": "Constant-product swap: exact price, exact fee split, no free money",
        "props": ["WW.Props.C02"],
        "engines": [
            {"engine": "swapmath", "quick": 120000, "thorough": 3000000, "shards_quick": 4, "shards_thorough": 16},
        ],
        "technique": "Lean 4 proof of a closed form of the compute_swap replica (all u128 inputs, all valid fees) + differential correspondence of the replica against the real compute_swap via cfg hook",
        "level_text": "Kernel-checked theorems over all (offer_reserve, ask_reserve, offer) in [1,2^128)^3 and all valid fee triples: never panics, Ok iff the spread fits 128 bits, gross identity, exact fee split, proceeds < reserve, there-and-back never profits. The model is tied to terraswap_pair::helpers::compute_swap by a bit-for-bit differential run (ok/err/panic and all five output fields).",
        "level_note": "Trusted: Lean kernel (+propext, Classical.choice, Quot.sound), the hand-written replica (validated on 1.2e5 / 3e6 sampled inputs incl. boundary shapes), harness and check script. Decimal settings do not enter the constant-product arm.",
        "design_ref": "5 / C02",
        "rule": "inputs: 8 reserve/offer shapes (balanced, extreme ratios, near 2^128, tiny) x fee triples (zero, valid boundary-heavy, 5% possibly invalid); non-trivial = the real compute_swap returned Ok; distinct = distinct input lines",
        "assumptions": ["default cargo features (no osmosis fee)"],
    },
}

# reasons for properties not claimed yet (kept current; empty when everything is claimed)
NOT_YET = {}
