#!/bin/sh
# tools/mk_agent_copy.sh NAME : private working copy of /verif and a private git worktree of /repo
# under /tmp/wa/NAME, so that parallel builders never touch /repo or each other's build output.
set -e
N="$1"
D=/tmp/wa/$N
rm -rf "$D"; mkdir -p "$D"
git -C /repo worktree prune
git -C /repo worktree add --detach "$D/repo" HEAD >/dev/null 2>&1
cp -r /verif "$D/verif"
rm -rf "$D/verif/.git"
sed -i "s#/repo/#$D/repo/#g" "$D/verif/harness/Cargo.toml"
echo "export VERIF_REPO=$D/repo" > "$D/env.sh"
echo "$D"
