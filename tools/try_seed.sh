#!/bin/sh
# tools/try_seed.sh <seed dir> <ID> [tier] : apply a seeded change to /repo, run the property's check, undo.
D=$1; ID=$2; T=${3:-quick}
cd /verif
git -C /repo status --short | grep -q . && { echo "/repo not clean"; exit 3; }
git -C /repo apply "$D/patch.diff" || { echo "patch does not apply"; exit 2; }
./check $ID --tier $T > "$D/check.$ID.out" 2>&1; rc=$?
git -C /repo checkout -- .
echo "rc=$rc"; grep -E "^VIOLATION|^KNOWN|^check " "$D/check.$ID.out" | cut -c1-300
