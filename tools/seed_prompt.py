#!/usr/bin/env python3
"""tools/seed_prompt.py <ID> <letter> [avoid text] [target file] : create the scratch worktree /tmp/seed/<ID>-<letter>-repo and
print the prompt for an independent seeding worker (it sees the property text only, nothing of /verif)."""
import json, os, subprocess, sys
pid, letter = sys.argv[1], sys.argv[2]
avoid = sys.argv[3] if len(sys.argv) > 3 else ""
target = sys.argv[4] if len(sys.argv) > 4 else ""
prop = next(json.loads(l) for l in open("/verif/properties.jsonl") if json.loads(l)["id"] == pid)
sd = f"/tmp/seed/{pid}-{letter}"
wt = f"{sd}-repo"
os.makedirs(sd, exist_ok=True)
if not os.path.exists(wt):
    subprocess.run(["git", "-C", "/repo", "worktree", "prune"], check=True)
    subprocess.run(["git", "-C", "/repo", "worktree", "add", "--detach", wt, "HEAD"], check=True, stdout=subprocess.DEVNULL, stderr=subprocess.DEVNULL)
print(f"""You are helping to test a verification effort for the Rust/CosmWasm repository White-Whale-Defi-Platform/white-whale-core.
Your job: write ONE realistic code change to the repository that BREAKS the semantic property below, while the
repository still compiles and its existing test suite still passes, plus a demonstration that fails with your change
and passes without it.

Your private scratch git worktree of the repository is {wt} (work ONLY there; never touch /repo or /verif, and do not
read anything under /verif — your change must be independent of any existing checking machinery).
The sandbox is offline: always pass --offline to cargo (CARGO_NET_OFFLINE=true). The existing suite is run with
  cd {wt} && cargo nextest run --workspace --no-fail-fast --offline --test-threads 8      (318 tests, all must still pass)

THE PROPERTY ({pid}):
{json.dumps(prop, indent=1)}

Requirements for the change:
* It must be a plausible edit a maintainer could make by mistake (a refactor gone slightly wrong, a copy-paste slip, an
  "optimisation", a wrong comparison / rounding / ledger / index / ordering) in NON-TEST source code of the repository,
  small (a few lines), compiling with default cargo features.
* It must violate the property as stated (on some input / history inside the property's quantifier), and you must be
  able to show that on the real code.
* It must NOT be something ordinary use would expose at once: it should need something specific to manifest — a
  particular multi-step sequence of operations, an unusual but legal input, a boundary value, a particular asset kind
  / ordering / configuration, or two cooperating sites that each look fine alone. All 318 existing tests must still
  pass with the change applied (run them).{(' Avoid these ideas, which have been used already: ' + avoid) if avoid else ''}
* Do not edit or delete existing tests. Never use `git stash` (the stash is shared between worktrees and other workers use the same repository); keep work in progress in files under your deliverables directory instead.{(' Put the change in this file (it is one of the files the property is anchored in; a second cooperating edit elsewhere is allowed if your idea needs it): ' + target) if target else ''}

Deliverables, all written to {sd}/ :
  patch.diff  – `git diff` of the change alone (applies with `git apply` at the repository root on a clean tree)
  demo.diff   – `git diff` (incl. new files: use `git add -N` first) of the demonstration alone: a NEW integration test file
                (e.g. contracts/.../tests/<name>.rs or a new #[test] module in a NEW file) that touches files DISJOINT from
                patch.diff, passes on the clean tree and FAILS with patch.diff applied. It must apply on both trees.
  RUN.md      – with a section "## Run the demonstration" containing the exact single `cargo test … --offline …` command
                (4-space indented) that runs the demo, and the expected outcomes with / without the change.
  meta.json   – {{"property": "{pid}", "title": "<one line>", "breaks": "<which clause and how>", "needs": "<what is needed for it to manifest>",
                 "files": [<changed source files>], "baseline": "<N passed / M failed with the change>",
                 "demo_without_change": "pass", "demo_with_change": "fail"}}
When finished, leave the worktree CLEAN (git checkout -- . ; git clean -fdq -e target) — the diffs in {sd}/ are the result.
Verify yourself before finishing: (1) clean tree + demo.diff → demo passes; (2) + patch.diff → demo fails;
(3) patch.diff alone → the full existing suite still passes (318 passed). Report briefly what you changed and the three results.""")
