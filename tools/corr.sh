#!/bin/sh
# tools/corr.sh <engine> <seed> <cases> [variant] : one correspondence run, prints the first divergence
set -e
cd "$(dirname "$0")/.."
E=$1; S=$2; N=$3; V=$4
mkdir -p .cache/run
(cd harness && cargo build --offline 2>&1 | grep -E "^error" -A12 | head -40)
(cd lean && lake build wwdriver 2>&1 | grep -E "error" -A8 | head -40)
.cache/harness-target/debug/wwharness $E --seed $S --cases $N --ops .cache/run/$E.ops --obs .cache/run/$E.impl --report .cache/run/$E.rep.json ${V:+--variant $V}
lean/.lake/build/bin/wwdriver < .cache/run/$E.ops > .cache/run/$E.model
python3 - "$E" <<'PY'
import sys,json
e=sys.argv[1]
b='/verif/.cache/run/'+e
ops=open(b+'.ops').read().splitlines(); im=open(b+'.impl').read().splitlines(); mo=open(b+'.model').read().splitlines()
n=0
for i,(o,a,m) in enumerate(zip(ops,im,mo)):
    if a!=m:
        n+=1
        if n<=2:
            print('DIVERGENCE line',i); print(' op   :',o[:300]); 
            at=a.split(); mt=m.split()
            print(' impl :',at[0],[x for x,y in zip(at,mt) if x!=y][:8]); print(' model:',mt[0],[y for x,y in zip(at,mt) if x!=y][:8])
            j=i
            while j>0 and not ops[j].startswith('init'): j-=1
            print(' case starts at',j,'(',i-j,'ops in)'); print('  prev impl:',im[i-1][:400] if i>0 else '')
print('lines',len(ops),len(im),len(mo),'divergent',n)
r=json.load(open(b+'.rep.json'))
print('monitor failures:',len(r['monitor_failures']))
for f in r['monitor_failures'][:3]: print('  ',f['property'],f['monitor'],f['what'][:400])
print('outcomes',r['outcome_mix'])
PY
