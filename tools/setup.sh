#!/bin/sh
# Build the framework from files on disk only (offline). Run once after a fresh restore.
set -e
cd "$(dirname "$0")/.."
export CARGO_NET_OFFLINE=true
python3 tools/extract_constants.py
python3 tools/extract_variants.py
python3 tools/rs2lean.py
(cd lean && lake build WW wwdriver)
[ -f harness/Cargo.lock ] || cp /repo/Cargo.lock harness/Cargo.lock
(cd harness && cargo build --offline)
echo "setup ok"
