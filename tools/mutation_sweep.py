#!/usr/bin/env python3
"""tools/mutation_sweep.py <copy dir> <out.jsonl> [--per-file N] [--seed S] [--shard k/n] [--unanchored] [--files glob…]

Systematic complement to the independently seeded changes: one-token mutants of the NON-TEST source the
properties are anchored in. Runs entirely in a private copy made by tools/mk_agent_copy.sh (<copy dir> holds
verif/ and repo/). For every mutant:
  1. apply it to <copy>/repo (one line changed);
  2. run the unedited baseline suite there; a mutant the suite kills (or that does not compile) is dropped —
     the interest is in changes that "still compile and pass the existing tests";
  3. run the quick check of every property anchored in the mutated file; record VIOLATION lines;
  4. undo.
A survivor (suite passes, no check fires) is either an equivalent mutant, a change no listed property speaks
about, or a hole: those are what to read. Nothing here is a proof; it only looks for holes in what the
generators reach."""
import glob, json, os, random, re, subprocess, sys, time

copy = sys.argv[1]
out = sys.argv[2]
args = sys.argv[3:]
per_file = int(args[args.index("--per-file") + 1]) if "--per-file" in args else 3
seed = int(args[args.index("--seed") + 1]) if "--seed" in args else 1
only = args[args.index("--files") + 1:] if "--files" in args else []
REPO, VERIF = os.path.join(copy, "repo"), os.path.join(copy, "verif")
env = dict(os.environ, VERIF_REPO=REPO, CARGO_NET_OFFLINE="true")

def sh(cmd, cwd, timeout=3600):
    p = subprocess.run(cmd, shell=True, cwd=cwd, env=env, text=True, stdout=subprocess.PIPE, stderr=subprocess.STDOUT, timeout=timeout)
    return p.returncode, p.stdout

props = [json.loads(l) for l in open(os.path.join(VERIF, "properties.jsonl"))]
file_props = {}
for p in props:
    for f in p["anchors"]["files"]:
        if f.startswith("packages/"):
            continue  # the contracts' own tests link the registry copy of white-whale-std
        file_props.setdefault(f, []).append(p["id"])

if "--unanchored" in args:
    # third sweep: the NON-anchored non-test sources (dispatch, queries, receive hooks, factory update paths …),
    # judged by every property anchored somewhere in the same contract crate
    crate_props = {}
    for f, ids in file_props.items():
        crate = f.split("/src/")[0]
        crate_props.setdefault(crate, set()).update(ids)
    anchored = set(file_props)
    file_props = {}
    for path in glob.glob(os.path.join(REPO, "contracts", "**", "src", "**", "*.rs"), recursive=True):
        f = os.path.relpath(path, REPO)
        base = os.path.basename(f)
        if f in anchored or "/tests/" in f or "/bin/" in f or "/sim/" in f or "mock" in f:
            continue
        if base in ("error.rs", "err.rs", "lib.rs", "mod.rs", "response.rs", "migrations.rs", "msg.rs") or base.startswith("migrate"):
            continue
        crate = f.split("/src/")[0]
        if crate in crate_props:
            file_props[f] = sorted(crate_props[crate])

RULES = [
    (r"<=", "<"), (r"(?<![<\-=!>])<(?![=<])(?=\s)", "<="), (r">=", ">"), (r"(?<![>\-=])\s>(?![=>])\s", " >= "),
    (r"==", "!="), (r"!=", "=="), (r"&&", "||"), (r"\|\|", "&&"),
    (r"checked_add", "checked_sub"), (r"checked_sub", "checked_add"),
    (r"checked_mul_floor", "checked_mul_ceil"), (r"saturating_sub", "saturating_add"),
    (r"\.is_zero\(\)", ".is_zero() == false"), (r"!(?=[a-z_\.]+\.(is_|contains|has))", ""),
]

def candidates(path):
    src = open(path).read().split("\n")
    res = []
    in_test = False
    depth_at_test = None
    in_migrate = False
    for i, line in enumerate(src):
        st = line.strip()
        if "#[cfg(test)]" in st:
            in_test = True
        if in_test:
            continue  # test modules sit at the end of the files of this repository
        # `migrate` handlers: version tests no listed property speaks about (first sweep: 14 silent survivors)
        if re.match(r"pub fn migrate\b", st) or "--with-migrate" in args and False:
            in_migrate = True
        if in_migrate:
            if line.startswith("}"):
                in_migrate = False
            continue
        if 'feature = "osmosis"' in st or 'feature = "injective"' in st or 'feature = "token_factory"' in st:
            continue
        if st.startswith("//") or st.startswith("#[") or st.startswith("use ") or not st:
            continue
        code = line.split("//")[0]
        # guard statements that can simply disappear
        if re.match(r"\s*(helpers::|asset::|self::)?[a-z_:]*(validate|assert|ensure|check)[a-z_]*\(.*\)\?;\s*$", code):
            res.append((i, line, "", "delete-guard"))
        interesting = any(k in code for k in ("if ", "ensure!", "while ", "checked_", "saturating_", ".cmp(", "match ", "return", "&&", "||"))
        if not interesting:
            continue
        for pat, rep in RULES:
            for m in re.finditer(pat, code):
                new = code[: m.start()] + rep + code[m.end():] + line[len(code):]
                if new != line:
                    res.append((i, line, new, f"{pat} -> {rep}"))
    return res

rng = random.Random(seed)
plan = []
for f, ids in sorted(file_props.items()):
    if only and not any(glob.fnmatch.fnmatch(f, g) for g in only):
        continue
    path = os.path.join(REPO, f)
    if not os.path.exists(path):
        continue
    c = candidates(path)
    rng.shuffle(c)
    for x in c[:per_file]:
        plan.append((f, ids, x))
if "--shard" in args:
    k, n = [int(x) for x in args[args.index("--shard") + 1].split("/")]
    plan = plan[k::n]
print(f"{len(plan)} mutants planned over {len(set(p[0] for p in plan))} files", flush=True)

done = set()
if os.path.exists(out):
    for l in open(out):
        try:
            j = json.loads(l); done.add((j["file"], j["line"], j["rule"], j["new"]))
        except Exception:
            pass

for n, (f, ids, (i, old, new, rule)) in enumerate(plan):
    key = (f, i + 1, rule, new.strip())
    if key in done:
        continue
    path = os.path.join(REPO, f)
    sh("git checkout -- .", REPO)
    src = open(path).read().split("\n")
    assert src[i] == old
    if new == "":
        src[i] = re.match(r"\s*", old).group(0) + "// (mutant: guard removed)"
    else:
        src[i] = new
    open(path, "w").write("\n".join(src))
    rec = {"file": f, "line": i + 1, "rule": rule, "old": old.strip(), "new": new.strip(), "props": ids}
    t0 = time.time()
    rc, o = sh("cargo nextest run --workspace --no-fail-fast --tool-config-file pb:/w/lib/nextest.toml --profile pb --test-threads 8 --offline 2>&1 | tail -40", REPO, timeout=3600)
    m = re.search(r"(\d+) tests run: (\d+) passed(?:, (\d+) failed)?", o)
    if not m:
        rec["suite"] = "does-not-compile" if "error" in o else "unknown"
    elif m.group(3) or int(m.group(2)) < 318:
        rec["suite"] = f"killed ({m.group(3) or '?'} failed)"
    else:
        rec["suite"] = "passes"
        rec["checks"] = {}
        for pid in ids:
            rc, o = sh(f"./check {pid} 2>&1 | grep -E 'VIOLATION|^check ' | cut -c1-200", VERIF, timeout=7200)
            viol = [l for l in o.splitlines() if l.startswith("VIOLATION")]
            with_input = [l for l in viol if "no-failing-input-found" not in l]
            rec["checks"][pid] = "violation-with-input" if with_input else ("violation-no-input" if viol else "silent")
            sh("rm -f replays/C??-*.json; git checkout -q -- evidence 2>/dev/null || true", VERIF)
    rec["secs"] = round(time.time() - t0)
    with open(out, "a") as fh:
        fh.write(json.dumps(rec) + "\n")
    print(n + 1, "/", len(plan), f, i + 1, rule, "=>", rec["suite"], rec.get("checks", ""), flush=True)
sh("git checkout -- .", REPO)
