import json,os,subprocess,sys
batch=sys.argv[1:]
for item in batch:
    parts=item.split(':'); pid,letter=parts[0].split('-'); target=parts[1] if len(parts)>1 else ''
    titles=[]
    for d in sorted(os.listdir('/verif/seeded')):
        m=os.path.join('/verif/seeded',d,'meta.json')
        if d.startswith(pid+'-') and os.path.exists(m):
            titles.append(json.load(open(m)).get('title','')[:160])
    avoid=' ; '.join(titles)
    avoid+=" . This time prefer an idea whose manifestation needs one of: transient state (a call made from inside another contract's callback / between sub-messages / in the same block or same second as another operation), an unusual but legal deployment parameter or asset naming, a value that only arises after a long or particular history (large registry, many epochs, dust amounts, amounts near u128 limits), or two entry points that are each fine alone."
    out=subprocess.run(['python3','/verif/tools/seed_prompt.py',pid,letter,avoid]+([target] if target else []),capture_output=True,text=True)
    open(f'/tmp/seed/{pid}-{letter}.prompt','w').write(out.stdout)
    print(pid,letter, len(out.stdout), out.stderr[:200])
