#!/usr/bin/env python3
"""Validate MANIFEST.json and evidence/*.json against the schemas (run with python3-vt)."""
import glob, json, sys
import jsonschema
ok = True
m = json.load(open('/verif/MANIFEST.json'))
try:
    jsonschema.validate(m, json.load(open('/root/.vp/MANIFEST.schema.json')))
    print('MANIFEST ok')
except Exception as e:
    ok = False; print('MANIFEST INVALID', e)
es = json.load(open('/root/.vp/EVIDENCE.schema.json'))
for f in sorted(glob.glob('/verif/evidence/*.json')):
    try:
        jsonschema.validate(json.load(open(f)), es); print(f, 'ok')
    except Exception as e:
        ok = False; print(f, 'INVALID', str(e)[:300])
sys.exit(0 if ok else 1)
